"""pytest plugin: harvest every call of the modelled geff functions made while the REPOSITORY'S OWN test suite runs.

Loaded with `-p harness.harvest_plugin` (PYTHONPATH = <repo srcs>:<framework clone>).  Nothing in the repository is edited: the entry
points that have Coq models are wrapped by monkeypatching at import time (every reference held by a geff / geff_spec module is replaced,
test modules import the wrapped names afterwards).  Each call is recorded as one JSON line under $HARVEST_DIR (default
<clone>/.work/harvest): function, test id, nesting depth, the arguments (before the call), the outcome (return value or exception
class) and, for the store-side entry points, the abstract dump of the store (harness/storelib.dump_tree) before / after the call and the
Coq term fragments printed with the same printers the drivers use (harness/graphgen, harness/storelib).

The wrappers are transparent: they call the original with the caller's arguments, return its result / re-raise its exception
unchanged, never swallow warnings, and everything the plugin does itself runs under a guard (`STATE.busy`) so that the geff functions it
uses for its own observations are not recorded and a failure inside the plugin is written to the record (`plugin_error`) instead of
reaching the test.  harness/harvest.py turns the records into cases of the existing drivers.
"""
from __future__ import annotations

import functools
import inspect
import json
import os
import sys
import time
import traceback
from pathlib import Path

import numpy as np

VERIF = Path(__file__).resolve().parent.parent
OUT_DIR = Path(os.environ.get("HARVEST_DIR", str(VERIF / ".work" / "harvest")))
ARRAY_LIMIT = 20000      # elements recorded per array (above: shape only, the call is counted as not encodable)
STORE_LIMIT = 1 << 20    # bytes of a store that is dumped (above: not dumped)


class _State:
    busy = 0          # >0 while plugin code runs: wrapped functions pass straight through
    depth = 0         # nesting depth of recorded calls
    test = None       # current test id
    seq = 0
    fh = None
    t_plugin = 0.0
    uid = 0


STATE = _State()


# --------------------------------------------------------------------------------------------------------------
# raw (JSON) encoding of Python / numpy values
# --------------------------------------------------------------------------------------------------------------
def dtype_name(dt) -> str:
    dt = np.dtype(dt)
    if dt.kind == "U":
        return "str"
    if dt.kind == "S":
        return "bytes"
    if dt.kind == "O":
        return "object"
    if dt.kind == "T":
        return "str"
    return dt.name


def enc_np(a: np.ndarray) -> dict:
    d = {"dtype": dtype_name(a.dtype), "np": str(a.dtype), "shape": [int(s) for s in a.shape]}
    if isinstance(a, np.ma.MaskedArray):
        d["masked"] = True
    if a.dtype.byteorder == ">":
        d["be"] = True
    if a.size > ARRAY_LIMIT:
        d["big"] = True
        return d
    if a.dtype.kind == "O":
        d["elems"] = [enc_any(x) for x in a.ravel()] if a.size else []
    elif a.dtype.kind == "S":
        d["data"] = [x.decode("latin1") for x in np.asarray(a).ravel().tolist()]
    elif a.dtype.kind in "biufUT":
        d["data"] = np.asarray(a).ravel().tolist()
    else:
        d["data"] = [repr(x) for x in np.asarray(a).ravel().tolist()]
        d["opaque"] = True
    return d


def enc_any(x, depth=0):
    if depth > 12:
        return {"repr": "<too deep>"}
    if x is None or isinstance(x, (bool, int, float, str)):
        return x
    if isinstance(x, np.ndarray):
        return {"nd": enc_np(x)}
    if isinstance(x, np.generic):
        return {"npscalar": dtype_name(x.dtype), "v": x.item() if x.dtype.kind in "biufU" else repr(x)}
    if isinstance(x, bytes):
        return {"bytes": x.decode("latin1")}
    if isinstance(x, (list, tuple)):
        if len(x) > ARRAY_LIMIT:
            return {"repr": f"<{type(x).__name__} of {len(x)}>", "big": True}
        return {("list" if isinstance(x, list) else "tuple"): [enc_any(v, depth + 1) for v in x]}
    if isinstance(x, dict):
        return {"dict": [[enc_any(k, depth + 1), enc_any(v, depth + 1)] for k, v in x.items()]}
    try:
        import pydantic

        if isinstance(x, pydantic.BaseModel):
            return {"model": type(x).__name__, "dump": enc_any(x.model_dump(), depth + 1), "set": sorted(x.model_fields_set)}
    except Exception:
        pass
    if isinstance(x, Path):
        return {"path": str(x)}
    return {"repr": repr(x)[:120], "type": type(x).__name__}


def exn_name(e: BaseException) -> str:
    from harness.common import exn_name as f

    return f(e)


def outcome(rec, exc, enc_result=None):
    if exc is not None:
        rec["out"] = {"exc": exn_name(exc), "exc_type": type(exc).__name__, "msg": str(exc)[:200]}
        if isinstance(exc, Warning):  # the suite runs with filterwarnings = error: a warning of geff aborted the call
            rec["out"]["warning_as_error"] = True
    else:
        rec["out"] = {"ok": enc_result}


def emit(rec):
    if rec.get("_drop"):
        return
    if STATE.fh is None:
        OUT_DIR.mkdir(parents=True, exist_ok=True)
        STATE.fh = open(OUT_DIR / f"calls-{os.getpid()}.jsonl", "a")
    STATE.seq += 1
    rec["seq"] = STATE.seq
    try:
        line = json.dumps(rec)
    except Exception as e:  # a value the encoder let through but json cannot write
        line = json.dumps({"fn": rec.get("fn"), "test": rec.get("test"), "seq": STATE.seq, "plugin_error": f"json: {type(e).__name__}: {e}"[:300]})
    STATE.fh.write(line + "\n")
    STATE.fh.flush()


def bind(orig, a, k) -> dict:
    b = inspect.signature(orig).bind(*a, **k)
    b.apply_defaults()
    return dict(b.arguments)


# --------------------------------------------------------------------------------------------------------------
# generic wrapper
# --------------------------------------------------------------------------------------------------------------
def make_wrapper(name, orig, pre, post):
    """pre(rec, args, kwargs) -> ctx (runs before the call; may raise: recorded as plugin_error)
    post(rec, ctx, result, exc) fills rec (runs after the call)."""

    @functools.wraps(orig)
    def wrapper(*a, **k):
        if STATE.busy:
            return orig(*a, **k)
        rec = {"fn": name, "test": STATE.test, "depth": STATE.depth}
        ctx = None
        t0 = time.time()
        STATE.busy += 1
        try:
            bad = tampered()
            if bad:
                rec["mocked"] = bad
            ctx = pre(rec, a, k)
        except Exception as e:  # noqa: BLE001
            rec["plugin_error"] = f"pre: {type(e).__name__}: {e} @ {traceback.format_exc()[-400:]}"
        finally:
            STATE.busy -= 1
            STATE.t_plugin += time.time() - t0
        STATE.depth += 1
        result, exc = None, None
        try:
            result = orig(*a, **k)
            return result
        except BaseException as e:
            exc = e
            raise
        finally:
            STATE.depth -= 1
            if exc is None or isinstance(exc, Exception):
                t0 = time.time()
                STATE.busy += 1
                try:
                    if "plugin_error" not in rec:
                        post(rec, ctx, result, exc)
                except Exception as e:  # noqa: BLE001
                    rec["plugin_error"] = f"post: {type(e).__name__}: {e} @ {traceback.format_exc()[-400:]}"
                try:
                    emit(rec)
                except Exception:  # noqa: BLE001
                    pass
                STATE.busy -= 1
                STATE.t_plugin += time.time() - t0

    wrapper.__harvest_orig__ = orig
    return wrapper


def simple(name, orig, enc_out=enc_any):
    """arguments and result recorded raw"""

    def pre(rec, a, k):
        rec["args"] = {kk: enc_any(v) for kk, v in bind(orig, a, k).items()}

    def post(rec, ctx, result, exc):
        outcome(rec, exc, None if exc is not None else enc_out(result))

    return make_wrapper(name, orig, pre, post)


# --------------------------------------------------------------------------------------------------------------
# store-side helpers (abstract dumps, Coq printers of the drivers)
# --------------------------------------------------------------------------------------------------------------
def store_kind(store) -> str:
    return "KPath" if isinstance(store, (str, Path)) else "KObj"


def store_bytes(store) -> int | None:
    """cheap size estimate of a store (None: unknown kind)"""
    from zarr.storage import LocalStore, MemoryStore

    try:
        if isinstance(store, MemoryStore):
            return sum(len(v) for v in store._store_dict.values())
        root = None
        if isinstance(store, (str, Path)):
            root = Path(os.path.expanduser(str(store)))
        elif isinstance(store, LocalStore):
            root = Path(str(store.root))
        if root is not None:
            if not root.exists():
                return 0
            tot = 0
            for dp, _, fn in os.walk(root):
                for f in fn:
                    tot += os.path.getsize(os.path.join(dp, f))
            return tot
    except Exception:  # noqa: BLE001
        return None
    return None


class Skip(Exception):
    """the call is outside a model's encoding (reason recorded, call counted)"""


def dump(store, it):
    from harness.storelib import dump_tree

    if isinstance(store, (str, Path)) and str(store).startswith("~"):
        raise Skip("store path spelled with ~")
    n = store_bytes(store)
    if n is not None and n > STORE_LIMIT:
        raise Skip(f"store larger than {STORE_LIMIT} bytes")
    return dump_tree(store, it)


def tree_stats(t) -> int:
    if t is None:
        return 0
    if t["k"] == "A":
        return len(t["flat"] or [])
    return sum(tree_stats(c) for _, c in t["ch"])


def check_tree(t):
    from harness.storelib import tree_printable

    if not tree_printable(t):
        raise Skip("store holds an array / metadata dtype outside the model (or a torn array)")
    if t is not None and bad_dims(t):
        raise Skip("array dimension above the nat-literal limit")


def bad_dims(t) -> bool:
    if t["k"] == "A":
        return any(s > 4000 for s in t["shape"])
    return any(bad_dims(c) for _, c in t["ch"])


def props_printable(nprops, eprops):
    from harness import graphgen as gg

    for ps in (nprops, eprops):
        if not ps:
            continue
        for kname, p in ps.items():
            if not isinstance(kname, str) or "/" in kname or kname.startswith(".") or kname == "zarr.json" or any(ord(ch) < 32 for ch in kname):
                raise Skip("property name outside the model (/, leading dot, control character, non-string)")
            v = p["values"]
            if not isinstance(v, np.ndarray) or isinstance(v, np.ma.MaskedArray):
                raise Skip("property values are not a plain ndarray")
            if not gg.printable_np(v):
                raise Skip("property dtype outside the model / object array of non-arrays")
            if p["missing"] is not None and not isinstance(p["missing"], np.ndarray):
                raise Skip("missing mask is not an ndarray")
            if v.size > ARRAY_LIMIT or any(s > 4000 for s in v.shape):
                raise Skip("property array too large")


def axis_float_map(md, nprops) -> dict:
    """The write model computes axis min / max on the payloads, so the coordinates of a declared axis must be exact in the fixed-point
    encoding (multiples of 2^-10).  The maintainers' mock data uses values such as 0.1: those are replaced, consistently in everything
    this record prints (arguments, both dumps, stored document), by order-preserving dyadic stand-ins (harvest.FloatMap: every int and
    dyadic float of the axis columns and of the caller's metadata keeps its value).  Returns {float: stand-in}; {} when nothing needs it."""
    from harness.harvest import FloatMap
    from harness.harvest import Skip as HSkip

    fm = FloatMap()

    def walk(x):
        if isinstance(x, dict):
            for v in x.values():
                walk(v)
        elif isinstance(x, list):
            for v in x:
                walk(v)
        elif isinstance(x, (int, float)):
            fm.see(x)
    walk(md.model_dump(mode="json"))
    for ax in md.axes or []:
        p = (nprops or {}).get(ax.name)
        if p is None:
            continue
        v = p["values"]
        if v.dtype.kind == "f":
            vals = v.ravel().tolist()
            if any(x != x or abs(x) == float("inf") for x in vals):
                raise Skip("non-finite axis coordinates")
            if any(abs(x) >= 2.0 ** 40 for x in vals):
                raise Skip("axis coordinates beyond the fixed-point range")
            for x in vals:
                fm.see(x)
        elif v.dtype.kind in "iu":
            if v.size and (int(v.max()) > 2**53 or int(v.min()) < -2**53):
                raise Skip("integer axis coordinates beyond 2^53")
            for x in v.ravel().tolist():
                fm.see(x)
        else:
            raise Skip("axis property is not numeric")
    if not fm.nd:
        return {}
    try:
        fm.build()
    except HSkip as e:
        raise Skip(str(e)) from None
    return fm.map


class float_override:
    """while active, storelib.enc_float maps the floats of `fmap` to the payloads of their stand-ins"""

    def __init__(self, fmap):
        self.fmap = fmap

    def __enter__(self):
        from harness import storelib

        self.mod, self.orig = storelib, storelib.enc_float
        if self.fmap:
            fmap, orig = self.fmap, self.orig

            def enc_float(x):
                x = float(x)
                if x in fmap:
                    return orig(fmap[x])
                return orig(x)
            storelib.enc_float = enc_float
        return self

    def __exit__(self, *exc):
        self.mod.enc_float = self.orig
        return False


def respell_json(x, fmap):
    if isinstance(x, dict):
        return {k: respell_json(v, fmap) for k, v in x.items()}
    if isinstance(x, list):
        return [respell_json(v, fmap) for v in x]
    if isinstance(x, float) and x in fmap:
        return fmap[x]
    return x


def has_geff(tree) -> bool:
    return tree is not None and tree["k"] == "G" and any(k == "geff" for k, _ in tree["attrs"])


def raw_geff_doc(store):
    import zarr

    try:
        root = zarr.open_group(store, mode="r")
        if "geff" not in root.attrs:
            return None
        return json.loads(json.dumps(root.attrs["geff"]))
    except Exception:  # noqa: BLE001
        return None


# --------------------------------------------------------------------------------------------------------------
# write_arrays  ->  C06 IHist (one call: pre tree, arguments, result class, post tree), C10 IFull on a fresh MemoryStore
# --------------------------------------------------------------------------------------------------------------
def wrap_write_arrays(orig):
    def pre(rec, a, k):
        from harness import graphgen as gg
        from harness.common import HarnessError, cbool, cstr
        from harness.storelib import Interner, abstract_meta_obj, c_meta, c_otree, snapshot

        b = bind(orig, a, k)
        ctx = {"store": b["geff_store"], "it": Interner(), "b": b}
        rec["info"] = {"fmt": b["zarr_format"], "validate": bool(b["structure_validation"]), "overwrite": bool(b["overwrite"]),
                       "store": type(b["geff_store"]).__name__}
        try:
            if b["node_props_unsquish"] is not None or b["edge_props_unsquish"] is not None:
                raise Skip("unsquish arguments are outside the write model")
            nids, eids, nprops, eprops, md = b["node_ids"], b["edge_ids"], b["node_props"], b["edge_props"], b["metadata"]
            from geff_spec import GeffMetadata

            if not isinstance(md, GeffMetadata):
                raise Skip("metadata argument is not a GeffMetadata")
            for arr in (nids, eids):
                if not isinstance(arr, np.ndarray) or isinstance(arr, np.ma.MaskedArray) or arr.dtype.kind not in "biuf" or arr.size > ARRAY_LIMIT:
                    raise Skip("id arrays are not plain numeric ndarrays (or too large)")
                if any(s > 4000 for s in arr.shape):
                    raise Skip("id array too large")
            props_printable(nprops, eprops)
            fmap = ctx["fmap"] = axis_float_map(md, nprops)
            if fmap:
                rec["info"]["respelled"] = len(fmap)
            it = ctx["it"]
            with float_override(fmap):
                pre_tree = dump(ctx["store"], it)
                check_tree(pre_tree)
                kind = store_kind(ctx["store"])
                rec["info"].update(n=int(nids.shape[0]) if nids.ndim else -1, e=int(eids.shape[0]) if eids.ndim else -1,
                                   nprops=sorted(nprops) if nprops else [], eprops=sorted(eprops) if eprops else [],
                                   existed=has_geff(pre_tree), kind=kind,
                                   empty_vlen=any(p["values"].dtype == object and len(p["values"]) == 0
                                                  for ps in (nprops, eprops) if ps for p in ps.values()))
                try:
                    g = gg.c_wgraph(nids, eids, nprops, eprops, it)
                    mdt = c_meta(abstract_meta_obj(md, it))
                except HarnessError as e:
                    raise Skip(f"arguments outside the encoding: {e}") from None
                ctx["call"] = f"(mkcall {g} {mdt} {cbool(b['structure_validation'])} {cbool(b['overwrite'])})"
                ctx["head"] = f"IHist {kind} {c_otree(pre_tree)}"
                ctx["pre_tree"] = pre_tree
            ctx["snap"] = snapshot(ctx["store"]) if has_geff(pre_tree) else None
            # C10 IFull: fresh MemoryStore, no overwrite; the caller's metadata as the keyword arguments of GeffMetadata
            if pre_tree is None and kind == "KObj" and not b["overwrite"]:
                try:
                    from geff_spec._schema import GEFF_VERSION
                    from harness import c07 as mj

                    kw = mj.enc(respell_json(json.loads(json.dumps(md.model_dump(mode="json"))), fmap))
                    ctx["full"] = f"IFull {cstr(GEFF_VERSION)} {mj.to_jv(kw)} {g} {cbool(b['structure_validation'])}"
                except HarnessError as e:
                    rec["skip_C10"] = f"metadata outside the encoding of the metadata model: {e}"[:200]
        except Skip as s:
            rec["skip"] = str(s)
        return ctx

    def post(rec, ctx, result, exc):
        from harness.common import HarnessError
        from harness.storelib import c_otree, snapshot

        outcome(rec, exc, None)
        if "skip" in rec or ctx is None or "call" not in ctx:
            return
        try:
            with float_override(ctx["fmap"]):
                post_tree = dump(ctx["store"], ctx["it"])
            check_tree(post_tree)
        except Skip as s:
            rec["skip"] = "after the call: " + str(s)
            return
        r = "(Ok tt)" if exc is None else f"(Err {exn_name(exc)})"
        rec["terms"] = {"C06": f"({ctx['head']} [{ctx['call']}], OHist [({r}, {c_otree(post_tree)})])"}
        if ctx["snap"] is not None:
            rec["info"]["bytes_identical"] = snapshot(ctx["store"]) == ctx["snap"]
        rec["info"]["post_same_tree"] = post_tree == ctx["pre_tree"]
        if "full" in ctx:
            from harness import c07 as mj

            if exc is not None:
                rec["terms"]["C10"] = f"({ctx['full']}, OFull (Err {exn_name(exc)}))"
            else:
                doc = respell_json(raw_geff_doc(ctx["store"]), ctx["fmap"])
                try:
                    rec["terms"]["C10"] = f"({ctx['full']}, OFull (Ok {mj.to_jv(mj.enc(doc))}))"
                    rec["info"]["doc"] = doc
                except HarnessError as e:
                    rec["skip_C10"] = f"stored document outside the encoding: {e}"[:200]

    return make_wrapper("write_arrays", orig, pre, post)


# --------------------------------------------------------------------------------------------------------------
# validate_structure -> C04 IValidate / IValidateJ
# --------------------------------------------------------------------------------------------------------------
def wrap_validate_structure(orig):
    def pre(rec, a, k):
        from harness.storelib import Interner, c_otree

        b = bind(orig, a, k)
        store = b["store"]
        ctx = {"store": store}
        rec["info"] = {"store": type(store).__name__}
        try:
            it = Interner()
            tree = dump(store, it)
            check_tree(tree)
            kind = store_kind(store)
            if kind == "KPath" and tree is None and os.path.exists(str(store)):
                raise Skip("path exists but holds no zarr group (outside the abstraction)")
            ctx["head"] = f"{kind} {c_otree(tree)}"
            rec["tree"] = tree
            rec["info"]["kind"] = kind
            if tree is not None:
                from harness import c04

                doc = c04.doc_term(store)
                if doc is not None:
                    ctx["doc"] = doc
        except Skip as s:
            rec["skip"] = str(s)
        return ctx

    def post(rec, ctx, result, exc):
        outcome(rec, exc, None)
        if "skip" in rec or ctx is None or "head" not in ctx:
            return
        r = "(Ok tt)" if exc is None else f"(Err {exn_name(exc)})"
        if "doc" in ctx:
            rec["terms"] = {"C04": f"(IValidateJ {ctx['head']} {ctx['doc'][0]} {ctx['doc'][1]}, OVal {r})"}
        else:
            rec["terms"] = {"C04": f"(IValidate {ctx['head']}, OVal {r})"}

    return make_wrapper("validate_structure", orig, pre, post)


# --------------------------------------------------------------------------------------------------------------
# read_to_memory -> C09 IBuild;  GeffReader (init / read_*_props / build) -> C09 ISeq
# --------------------------------------------------------------------------------------------------------------
def names_arg(x):
    if x is None:
        return None
    names = list(x)
    for n in names:
        if not isinstance(n, str) or n == "" or "/" in n or any(ord(ch) < 32 for ch in n):
            raise Skip("requested property name outside the model ('' / '/' / non-string)")
    return names


def mask_arg(m):
    if m is None:
        return None
    if not isinstance(m, np.ndarray) or m.dtype != bool or m.ndim != 1:
        raise Skip("mask is not a 1-D boolean ndarray")
    if m.shape[0] > 4000:
        raise Skip("mask too long")
    return [bool(x) for x in m.tolist()]


def mgraph_term(g, it):
    from harness import graphgen as gg
    from harness.common import HarnessError

    for ps in (g["node_props"], g["edge_props"]):
        for p in ps.values():
            if not gg.printable_np(p["values"]) or isinstance(p["values"], np.ma.MaskedArray):
                raise Skip("built property outside the model")
    try:
        return gg.c_mgraph(g, it)
    except HarnessError as e:
        raise Skip(f"built graph outside the encoding: {e}") from None


def wrap_read_to_memory(orig):
    def pre(rec, a, k):
        from harness.common import cbool
        from harness.storelib import Interner, c_otree

        b = bind(orig, a, k)
        store = b["source"]
        ctx = {"it": Interner()}
        rec["info"] = {"store": type(store).__name__, "validate": bool(b["structure_validation"]),
                       "data_validation": b["data_validation"] is not None}
        try:
            if b["data_validation"] is not None:
                raise Skip("data_validation requested (validate_data is harvested separately)")
            tree = dump(store, ctx["it"])
            check_tree(tree)
            if tree is None:
                raise Skip("no zarr group at the source (C18 covers absent sources)")
            if store_kind(store) == "KPath" and str(store).startswith("~"):
                raise Skip("~ path")
            from harness.c09 import c_names

            nn, en = names_arg(b["node_props"]), names_arg(b["edge_props"])
            rec["info"].update(nn=nn, en=en)
            ctx["head"] = f"IBuild {c_otree(tree)} {cbool(b['structure_validation'])} {c_names(nn)} {c_names(en)} None None"
        except Skip as s:
            rec["skip"] = str(s)
        return ctx

    def post(rec, ctx, result, exc):
        outcome(rec, exc, None)
        if "skip" in rec or ctx is None or "head" not in ctx:
            return
        try:
            r = f"(Ok {mgraph_term(result, ctx['it'])})" if exc is None else f"(Err {exn_name(exc)})"
        except Skip as s:
            rec["skip"] = str(s)
            return
        rec["terms"] = {"C09": f"({ctx['head']}, OBuild {r})"}
        if exc is None:
            rec["info"].update(n=int(len(result["node_ids"])), e=int(len(result["edge_ids"])),
                               nprops=list(result["node_props"]), eprops=list(result["edge_props"]))

    return make_wrapper("read_to_memory", orig, pre, post)


REGISTRY: list = []   # (namespace object, attribute, wrapper installed there)


def tampered() -> list[str]:
    """names whose wrapper a test has replaced (monkeypatched mocks): the call then does not run geff's own code"""
    out = []
    for ns, attr, w in REGISTRY:
        cur = ns.__dict__.get(attr) if isinstance(ns, type) else getattr(ns, attr, None)
        if isinstance(cur, classmethod):
            cur = cur.__func__
        if cur is not w:
            out.append(f"{getattr(ns, '__name__', ns)}.{attr}")
    return out


def reader_state(rd):
    return getattr(rd, "_harvest_state", None)


def emit_reader(st, test):
    from harness.common import cbool, clist, cstr

    if st.get("skip"):
        emit({"fn": "GeffReader", "test": test, "depth": st["depth"], "uid": st["uid"], "skip": st["skip"], "nops": len(st["ops"]),
              "info": st["info"]})
        return
    init = "(Ok tt)" if st["init"] is None else f"(Err {st['init']})"
    term = (f"(ISeq {st['tree']} {cbool(st['validate'])} {clist(st['listed'][0], cstr)} {clist(st['listed'][1], cstr)} "
            f"{clist(st['ops'])}, OSeq {init} {clist(st['steps'])})")
    emit({"fn": "GeffReader", "test": test, "depth": st["depth"], "uid": st["uid"], "nops": len(st["ops"]), "terms": {"C09": term},
          "info": st["info"], "out": {"ok": None} if st["init"] is None else {"exc": st["init"]}})


def wrap_reader_init(orig):
    def pre(rec, a, k):
        from harness.storelib import Interner, c_otree

        b = bind(orig, a, k)
        rd, store = b["self"], b["source"]
        STATE.uid += 1
        st = {"uid": f"{os.getpid()}-{STATE.uid}", "it": Interner(), "validate": bool(b["validate"]), "ops": [], "steps": [], "init": None,
              "listed": [[], []], "depth": STATE.depth, "info": {"store": type(store).__name__, "validate": bool(b["validate"])}}
        try:
            tree = dump(store, st["it"])
            check_tree(tree)
            if tree is None:
                raise Skip("no zarr group at the source (C18 covers absent sources)")
            st["tree"] = c_otree(tree)
        except Skip as s:
            st["skip"] = str(s)
        return {"st": st, "rd": rd}

    def post(rec, ctx, result, exc):
        st, rd = ctx["st"], ctx["rd"]
        rec["_drop"] = True
        if rec.get("mocked"):
            st["skip"] = "the test replaced geff internals by mocks: " + ", ".join(rec["mocked"])
        if isinstance(exc, Warning):
            st["skip"] = "a warning escalated to an error by the suite's filterwarnings=error"
        if exc is not None:
            st["init"] = exn_name(exc)
        else:
            st["listed"] = [list(rd.node_prop_names), list(rd.edge_prop_names)]
            try:
                rd._harvest_state = st
            except Exception:  # noqa: BLE001
                pass
        emit_reader(st, STATE.test)

    w = make_wrapper("GeffReader.__init__", orig, pre, post)
    return w


def wrap_reader_method(orig, which):
    def pre(rec, a, k):
        from harness.c09 import c_mask, c_names

        b = bind(orig, a, k)
        rd = b["self"]
        st = reader_state(rd)
        rec["_drop"] = True
        if st is None or st.get("skip"):
            return {"st": st, "rd": rd}
        try:
            if which == "build":
                st["ops"].append(f"(Build {c_mask(mask_arg(b['node_mask']))} {c_mask(mask_arg(b['edge_mask']))})")
            else:
                names = b["names"]
                if names is not None and not isinstance(names, (list, tuple)):
                    names = list(names)  # a one-shot iterable would be consumed: only lists / tuples are re-read
                    raise Skip("names given as a one-shot iterable")
                st["ops"].append(f"({'RNode' if which == 'rn' else 'REdge'} {c_names(names_arg(names))})")
        except Skip as s:
            st["skip"] = f"call {len(st['ops'])}: {s}"
        return {"st": st, "rd": rd}

    def post(rec, ctx, result, exc):
        from harness.common import clist, cstr

        st, rd = ctx["st"], ctx["rd"]
        if st is None:
            return
        if rec.get("mocked") and not st.get("skip"):
            st["skip"] = "the test replaced geff internals by mocks: " + ", ".join(rec["mocked"])
        if isinstance(exc, Warning) and not st.get("skip"):
            st["skip"] = "a warning escalated to an error by the suite's filterwarnings=error"
        if not st.get("skip"):
            try:
                if exc is not None:
                    r = f"(Err {exn_name(exc)})"
                elif which == "build":
                    r = f"(Ok (Some {mgraph_term(result, st['it'])}))"
                else:
                    r = "(Ok None)"
                st["steps"].append(f"(mksobs {clist(list(rd.node_props), cstr)} {clist(list(rd.edge_props), cstr)} "
                                   f"{clist(list(rd.metadata.node_props_metadata), cstr)} {clist(list(rd.metadata.edge_props_metadata), cstr)} {r})")
            except Skip as s:
                st["skip"] = f"call {len(st['ops']) - 1}: {s}"
        emit_reader(st, STATE.test)

    return make_wrapper(f"GeffReader.{which}", orig, pre, post)


# --------------------------------------------------------------------------------------------------------------
# geff_to_dataframes -> C17 frames (the graph is read off the store with the zarr API; warnings are observed through a proxy of the
# `warnings` name of the module, which forwards every call unchanged)
# --------------------------------------------------------------------------------------------------------------
class WarnProxy:
    def __init__(self, real):
        self._real = real
        self.sink = None

    def __getattr__(self, name):
        return getattr(self._real, name)

    def warn(self, message, category=None, stacklevel=1, **kw):
        if self.sink is not None:
            self.sink.append((str(message), category))
        return self._real.warn(message, category, stacklevel + 1, **kw)


def store_graph(store):
    """the stored graph for C17's case encoding, read with the zarr API only"""
    import zarr

    root = zarr.open_group(store, mode="r")
    ids = root["nodes/ids"][...]
    edges = root["edges/ids"][...]
    g = {"ids": enc_np(ids), "edges": enc_np(edges), "nprops": [], "eprops": []}
    order = {}
    for side, key in (("nodes", "nprops"), ("edges", "eprops")):
        names = []
        if "props" in root[side]:
            pg = root[f"{side}/props"]
            names = [*pg.group_keys()]
            for nm in names:
                sub = pg[nm]
                arrays = set(sub.array_keys())
                p = {"name": nm, "values": enc_np(sub["values"][...]), "missing": enc_np(sub["missing"][...]) if "missing" in arrays else None,
                     "varlen": "data" in arrays}
                g[key].append(p)
        order[key] = names
    g["order"] = order
    return g


def wrap_geff_to_dataframes(orig, proxy):
    def pre(rec, a, k):
        b = bind(orig, a, k)
        store = b["store"]
        rec["info"] = {"store": type(store).__name__}
        ctx = {"sink": []}
        try:
            n = store_bytes(store)
            if n is not None and n > STORE_LIMIT:
                raise Skip("store too large")
            try:
                rec["graph"] = store_graph(store)
            except Exception as e:  # noqa: BLE001
                raise Skip(f"store cannot be read with the zarr API as a graph: {type(e).__name__}") from None
        except Skip as s:
            rec["skip"] = str(s)
        proxy.sink = ctx["sink"]
        return ctx

    def post(rec, ctx, result, exc):
        proxy.sink = None
        outcome(rec, exc, None)
        if exc is None and "skip" not in rec:
            from harness.c17 import frame_obs

            ndf, edf = result
            rec["frames"] = {"nodes": json.loads(json.dumps(frame_obs(ndf), default=repr)), "edges": json.loads(json.dumps(frame_obs(edf), default=repr))}
        rec["warnings"] = [[m, getattr(c, "__name__", None)] for m, c in (ctx or {}).get("sink", [])]

    return make_wrapper("geff_to_dataframes", orig, pre, post)


# --------------------------------------------------------------------------------------------------------------
# mock data generators -> C20
# --------------------------------------------------------------------------------------------------------------
def wrap_mock(orig, kind):
    def pre(rec, a, k):
        b = bind(orig, a, k)
        rec["args"] = {kk: enc_any(v) for kk, v in b.items()}
        rec["given"] = sorted(inspect.signature(orig).bind(*a, **k).arguments)
        return {}

    def post(rec, ctx, result, exc):
        outcome(rec, exc, None)
        if exc is not None:
            return
        from geff.validate.data import ValidationConfig, validate_data
        from geff.validate.structure import validate_structure
        from harness import c20

        store, g = (None, result) if kind == "dummy" else result
        n = len(g["node_ids"])
        if n > 2000 or len(g["edge_ids"]) > 2000:
            rec["skip"] = "graph too large"
            return
        out = {"mem": c20.mem_view(g)}
        try:
            validate_data(g, ValidationConfig(graph=True))
            out["graph"] = "ok"
        except Exception as ex:  # noqa: BLE001
            out["graph"] = exn_name(ex)
        if store is not None:
            out["store_type"] = type(store).__name__
            try:
                validate_structure(store)
                out["struct"] = "ok"
            except Exception as ex:  # noqa: BLE001
                out["struct"] = exn_name(ex)
            out["store"] = c20.store_view(store, [p["name"] for p in out["mem"]["nprops"]], [p["name"] for p in out["mem"]["eprops"]])
            out["layout"] = c20.store_layout(store)
        rec["view"] = json.loads(json.dumps(out, default=repr))

    return make_wrapper(kind if kind in ("dummy", "mock") else f"create_{kind}", orig, pre, post)


# --------------------------------------------------------------------------------------------------------------
# metadata: GeffMetadata(...), model_validate, model_validate_json, assignment, the helpers of geff_spec.utils
# --------------------------------------------------------------------------------------------------------------
def dump_md(m):
    return enc_any(m.model_dump())


def wrap_md_init(orig):
    def pre(rec, a, k):
        b = inspect.signature(orig).bind(*a, **k)
        args = dict(b.arguments)
        args.pop("self", None)
        data = args.pop("data", None) or {}
        if args:
            data = dict(data, **args)
        rec["kw"] = enc_any(data)
        return {"self": a[0] if a else k.get("self")}

    def post(rec, ctx, result, exc):
        from geff_spec._schema import GEFF_VERSION

        outcome(rec, exc, None)
        rec["gv"] = GEFF_VERSION
        if exc is None:
            rec["dump"] = dump_md(ctx["self"])
        else:
            rec["out"]["real_exc"] = "ValidationError" if type(exc).__name__ == "ValidationError" else type(exc).__name__

    return make_wrapper("GeffMetadata.__init__", orig, pre, post)


def wrap_md_validate(orig_cm, name):
    func = orig_cm.__func__

    def pre(rec, a, k):
        b = inspect.signature(func).bind(*a, **k)
        args = dict(b.arguments)
        args.pop("cls", None)
        obj = args.pop("obj", args.pop("json_data", None))
        rec["obj"] = enc_any(obj)
        rec["extra_args"] = {kk: enc_any(v) for kk, v in args.items() if v is not None}
        return {}

    def post(rec, ctx, result, exc):
        from geff_spec._schema import GEFF_VERSION

        outcome(rec, exc, None)
        rec["gv"] = GEFF_VERSION
        if exc is None:
            rec["dump"] = dump_md(result)
        else:
            rec["out"]["real_exc"] = type(exc).__name__

    return classmethod(make_wrapper(f"GeffMetadata.{name}", func, pre, post))


def wrap_md_setattr(orig):
    def pre(rec, a, k):
        self, field, value = a[0], a[1], a[2]
        if field.startswith("_"):
            rec["_drop"] = True
            return {"self": self}
        rec["field"] = field
        rec["value"] = enc_any(value)
        rec["before"] = dump_md(self)
        return {"self": self}

    def post(rec, ctx, result, exc):
        from geff_spec._schema import GEFF_VERSION

        if rec.get("_drop"):
            return
        outcome(rec, exc, None)
        rec["gv"] = GEFF_VERSION
        rec["after"] = dump_md(ctx["self"])
        if exc is not None:
            rec["out"]["real_exc"] = type(exc).__name__

    return make_wrapper("GeffMetadata.__setattr__", orig, pre, post)


def wrap_md_util(orig, name):
    def pre(rec, a, k):
        b = bind(orig, a, k)
        rec["args"] = {kk: enc_any(v) for kk, v in b.items()}
        rec["given"] = sorted(inspect.signature(orig).bind(*a, **k).arguments)
        import pydantic

        ctx = {"mds": [v for v in b.values() if isinstance(v, pydantic.BaseModel)]}
        return ctx

    def post(rec, ctx, result, exc):
        import pydantic
        from geff_spec._schema import GEFF_VERSION

        outcome(rec, exc, None)
        rec["gv"] = GEFF_VERSION
        if exc is None:
            if isinstance(result, pydantic.BaseModel):
                rec["result"] = enc_any(result.model_dump())
                rec["alias"] = any(result is m for m in ctx["mds"])
            elif isinstance(result, list):
                rec["result"] = [enc_any(x.model_dump()) if isinstance(x, pydantic.BaseModel) else enc_any(x) for x in result]
        else:
            rec["out"]["real_exc"] = type(exc).__name__
        rec["args_after"] = [enc_any(m.model_dump()) for m in ctx["mds"]]

    return make_wrapper(name, orig, pre, post)


# --------------------------------------------------------------------------------------------------------------
# installation
# --------------------------------------------------------------------------------------------------------------
def replace_everywhere(orig, wrapper):
    n = 0
    for mname, mod in list(sys.modules.items()):
        if mod is None or not (mname == "geff" or mname.startswith("geff.") or mname == "geff_spec" or mname.startswith("geff_spec.")):
            continue
        for attr, val in list(vars(mod).items()):
            if val is orig:
                setattr(mod, attr, wrapper)
                REGISTRY.append((mod, attr, wrapper))
                n += 1
    return n


INSTALLED = []


def install():
    import importlib
    import pkgutil

    import geff
    import geff_spec

    for pkg in (geff, geff_spec):
        for m in pkgutil.walk_packages(pkg.__path__, pkg.__name__ + "."):
            if m.name.endswith("_cli") or "__main__" in m.name:
                continue
            try:
                importlib.import_module(m.name)
            except Exception:  # noqa: BLE001 -- optional dependencies
                pass
    import geff.convert._dataframe as DF
    import geff.core_io._base_read as BR
    import geff.core_io._base_write as BW
    import geff.core_io._serialization as SER
    import geff.core_io._utils as CU
    import geff.testing.data as TD
    import geff.validate.data as VD
    import geff.validate.graph as VG
    import geff.validate.segmentation as VS
    import geff.validate.shapes as VSH
    import geff.validate.structure as VST
    import geff.validate.tracks as VT
    import geff_spec.utils as SU
    from geff_spec import GeffMetadata

    def fn(mod, name, mk):
        orig = getattr(mod, name)
        w = mk(orig)
        n = replace_everywhere(orig, w)
        INSTALLED.append((f"{mod.__name__}.{name}", n))

    fn(BW, "write_arrays", wrap_write_arrays)
    fn(VST, "validate_structure", wrap_validate_structure)
    fn(BR, "read_to_memory", wrap_read_to_memory)
    for name in ("serialize_vlen_property_data", "deserialize_vlen_property_data"):
        fn(SER, name, lambda o, name=name: simple(name, o))
    fn(CU, "construct_var_len_props", lambda o: simple("construct_var_len_props", o))
    for name in ("validate_unique_node_ids", "validate_nodes_for_edges", "validate_no_self_edges", "validate_no_repeated_edges"):
        fn(VG, name, lambda o, name=name: simple(name, o))
    fn(VD, "validate_data", lambda o: simple("validate_data", o))
    for name in ("validate_sphere", "validate_ellipsoid"):
        fn(VSH, name, lambda o, name=name: simple(name, o))
    for name in ("validate_tracklets", "validate_lineages"):
        fn(VT, name, lambda o, name=name: simple(name, o))
    for name in ("has_valid_seg_id", "axes_match_seg_dims", "graph_is_in_seg_bounds", "has_seg_ids_at_time_points", "has_seg_ids_at_coords"):
        fn(VS, name, lambda o, name=name: simple(name, o))
    proxy = WarnProxy(DF.warnings)
    DF.warnings = proxy
    fn(DF, "geff_to_dataframes", lambda o: wrap_geff_to_dataframes(o, proxy))
    fn(TD, "create_dummy_in_mem_geff", lambda o: wrap_mock(o, "dummy"))
    fn(TD, "create_mock_geff", lambda o: wrap_mock(o, "mock"))
    for name, kind in (("create_simple_2d_geff", "simple2d"), ("create_simple_3d_geff", "simple3d"),
                       ("create_simple_temporal_geff", "temporal"), ("create_empty_geff", "empty")):
        fn(TD, name, lambda o, kind=kind: wrap_mock(o, kind))
    for name in ("update_metadata_axes", "create_or_update_metadata", "add_or_update_props_metadata", "axes_from_lists"):
        fn(SU, name, lambda o, name=name: wrap_md_util(o, name))

    # methods
    def meth(cls, attr, w):
        setattr(cls, attr, w)
        REGISTRY.append((cls, attr, w.__func__ if isinstance(w, classmethod) else w))

    R = BR.GeffReader
    meth(R, "__init__", wrap_reader_init(R.__init__))
    meth(R, "read_node_props", wrap_reader_method(R.read_node_props, "rn"))
    meth(R, "read_edge_props", wrap_reader_method(R.read_edge_props, "re"))
    meth(R, "build", wrap_reader_method(R.build, "build"))
    meth(GeffMetadata, "__init__", wrap_md_init(GeffMetadata.__init__))
    meth(GeffMetadata, "model_validate", wrap_md_validate(inspect.getattr_static(GeffMetadata, "model_validate"), "model_validate"))
    meth(GeffMetadata, "model_validate_json", wrap_md_validate(inspect.getattr_static(GeffMetadata, "model_validate_json"), "model_validate_json"))
    meth(GeffMetadata, "__setattr__", wrap_md_setattr(GeffMetadata.__setattr__))


# --------------------------------------------------------------------------------------------------------------
# pytest hooks
# --------------------------------------------------------------------------------------------------------------
def pytest_configure(config):
    STATE.busy += 1
    try:
        install()
    finally:
        STATE.busy -= 1


def pytest_runtest_logstart(nodeid, location):
    STATE.test = nodeid


def pytest_sessionfinish(session, exitstatus):
    OUT_DIR.mkdir(parents=True, exist_ok=True)
    (OUT_DIR / f"session-{os.getpid()}.json").write_text(json.dumps({
        "exitstatus": int(exitstatus), "records": STATE.seq, "plugin_seconds": round(STATE.t_plugin, 2), "installed": INSTALLED,
        "testscollected": getattr(session, "testscollected", None), "testsfailed": getattr(session, "testsfailed", None)}))
    if STATE.fh is not None:
        STATE.fh.close()
        STATE.fh = None
