"""C12 -- optional data validators accept exactly the valid data.

Correspondence: the four graph validators (verdict + offender arrays), validate_sphere /
validate_ellipsoid through validate_data, and the dispatch on the config flags, against
GraphVal.v evaluated in Coq.  Oracle: plain-Python restatement of the property text.
"""
from __future__ import annotations

import itertools
import random
from fractions import Fraction

import numpy as np

from harness.common import Failure, cbool, clist, cnat, copt, cz, exn_name

PROP = "C12"
INT_DTYPES = ["int8", "int16", "int32", "int64", "uint8", "uint16", "uint32", "uint64"]
RULE = ("bounded-exhaustive: all id arrays of length<=4 and all edge arrays of length<=3 over alphabet {0,1,2} x directedness; "
        "random id/edge arrays of every integer dtype with values at the dtype limits; a block of 64-bit ids that collide after a float64 detour; radius arrays (1-D/2-D, int/float, masks); "
        "integer covariance stacks for 1..3 spatial axes, symmetric-biased; exactly singular ones (diagonal with a 0, zero matrix, rank one v v^T, "
        "definite/singular blocks, singular indefinite, all negatives; alone, between definite matrices, flagged missing), asymmetric matrices whose eigenvalues are all positive, (n,0,0) stacks without a spatial axis; "
        "float radii with fractions in (-1,0), -0.0, NaN; "
        "all 2^5 configs x declared/undeclared properties; non-trivial = non-empty input; distinct by structural input")
EXHAUSTIVE_BLOCKS = ["validate_unique_node_ids: all arrays of length<=4 over {0,1,2}",
                     "validate_data(graph) and the three edge validators: all edge arrays of length<=3 over {0,1,2}^2 x {directed,undirected} x ids in {[0,1,2],[0,1]}"]
ASSUMPTIONS = [
    "the model decides positive-definiteness by leading principal minors over exact integers (proved equivalent to x^T M x > 0 for all non-zero x "
    "for sides 1..3: C12_posdef_1/2/3); the oracle decides it by the signs of the characteristic-polynomial coefficients (Faddeev-LeVerrier, exact "
    "rationals, no minors) and cross-checks with an explicit search for x^T M x <= 0 on the grid [-6,6]^n; np.linalg.eigvals / np.allclose are tied "
    "only on integer matrices with |entries| <= ~10, side <= 3",
    "'clearly inside / clearly outside' is read as: positive-definite integer matrices (smallest eigenvalue >= ~1/18^2), matrices with a direction of "
    "negative x^T M x, asymmetric integer matrices, and exactly singular PSD matrices whose zero eigenvalue LAPACK returns as exactly 0.0 (a zero "
    "row/column, or the literal list _EXACT_LITERALS of probed rank-one matrices and blocks). EXCLUDED from the tie: non-integer and nearly singular / "
    "nearly symmetric floats, and every other exactly singular PSD matrix (dense rank-deficient ones, [[2,2],[2,2]]): on those the implementation's "
    "verdict is the sign of a rounding error; they lie on the boundary the property's quantifier leaves out ('clearly inside or clearly outside'), are generated and counted, and no verdict is demanded of them",
    "a NaN radius (accepted by the code: not negative) has no counterpart among the model's scaled integers: oracle-only; float radii are multiples "
    "of 1/4 and reach the model multiplied by 4; masks always have one flag per row (numpy raises IndexError for a boolean mask of another length, "
    "the model's keep_present truncates instead: never generated)",
    "np.unique / np.isin are modelled by their mathematical meaning (sorted distinct values, membership)",
]

# ---- five-flag dispatch (DataVal.v); appended here so that the header above stays as it was
PARALLEL = True
RULE += ("; " +
        "FIVE-FLAG DISPATCH: all 2^5 configs x every declaration state of the sphere / ellipsoid / tracklet / lineage properties (undeclared, declared but absent "
        "from node_props, stored+valid, stored+invalid; track_node_props None / {} / one key / both keys) on small digraphs (forests with divisions and merges, "
        "isolated nodes, a cycle now and then, one or two graph faults), REAL missing masks on all four properties with adversarial fill values (an existing "
        "tracklet / lineage id, a fresh id, a negative radius, a non-PD or non-symmetric matrix), masks only on single-node classes (valid stays valid) / anywhere / "
        "dropped (fills are read), masks and value arrays of the wrong length; every data case goes to Coq (outcome, exception class AND the raise statement that "
        "fired), through validate_data and through read_to_memory(store, data_validation=cfg) with the masks stored;")
EXHAUSTIVE_BLOCKS.append("thorough only: validate_data, all 2^5 configs x all 4x4x(1+6x6) declaration-state combinations of the four properties "
                         "(one random graph each)")
ASSUMPTIONS.append(
    "validate_data: a node whose tracklet / lineage id is flagged missing belongs to no tracklet / lineage but stays in the graph with its edges (docstring of "
    "_annotated_nodes); the expected verdict is the documented definition on the full graph with such nodes unlabelled; declared-but-absent properties, arrays "
    "of mismatching lengths and duplicate node ids under the track validators are outside the property text (compared with the model only)")


def pairs(alpha):
    return [(a, b) for a in alpha for b in alpha]


def rand_ids(rng, dt, n):
    info = np.iinfo(dt)
    pool = [info.min, info.max, info.max - 1, 0, 1, 2, info.min + 1 if info.min < 0 else 3]
    pool = sorted(set(v for v in pool if info.min <= v <= info.max))
    return [rng.choice(pool) for _ in range(n)]


def rand_matrix(rng, n, mode):
    if mode == "pd":
        # A = B^T B + I  (integer, symmetric, positive definite)
        B = [[rng.randint(-1, 1) for _ in range(n)] for _ in range(n)]
        return [[sum(B[k][i] * B[k][j] for k in range(n)) + (1 if i == j else 0) for j in range(n)] for i in range(n)]
    M = [[rng.randint(-3, 5) for _ in range(n)] for _ in range(n)]
    if mode == "sym":
        for i in range(n):
            for j in range(i):
                M[i][j] = M[j][i]
    return M


def det_frac(M):
    n = len(M)
    A = [[Fraction(x) for x in row] for row in M]
    d = Fraction(1)
    for i in range(n):
        p = next((r for r in range(i, n) if A[r][i] != 0), None)
        if p is None:
            return Fraction(0)
        if p != i:
            A[i], A[p] = A[p], A[i]
            d = -d
        d *= A[i][i]
        for r in range(i + 1, n):
            f = A[r][i] / A[i][i]
            for c in range(i, n):
                A[r][c] -= f * A[i][c]
    return d


def minors(M):
    return [det_frac([row[:k] for row in M[:k]]) for k in range(1, len(M) + 1)]


def is_sym(M):
    n = len(M)
    return all(len(r) == n for r in M) and all(M[i][j] == M[j][i] for i in range(n) for j in range(n))


# ---- "symmetric and positive-definite" WITHOUT leading principal minors (the model's and the old oracle's method) ----
# Method (chosen because it shares no step with Sylvester's criterion, which is what GraphVal.pos_def computes):
#   * elem_sym: the elementary symmetric functions e_1..e_n of the eigenvalues, i.e. the coefficients of
#     det(tI - M) = t^n - e_1 t^(n-1) + e_2 t^(n-2) - ..., by the Faddeev-LeVerrier recurrence: exact Fractions,
#     matrix products and traces only -- no determinant, no elimination, no pivot, no minor.  (e_k is the sum of ALL
#     principal k x k minors, of which the leading one is a single term.)
#   * a real symmetric matrix has real eigenvalues, so: all eigenvalues > 0 iff e_k > 0 for every k (=>: sums of products
#     of positives; <=: for s >= 0, (-1)^n p(-s) = s^n + e_1 s^(n-1) + .. + e_n > 0, so no root is <= 0); likewise all
#     eigenvalues >= 0 iff every e_k >= 0.  This is the criterion the implementation's own eigenvalue test stands for.
#   * cross-check 1 (definition itself): an explicit search for an integer vector x != 0 with x^T M x <= 0 on a small
#     grid; a hit for a matrix classified positive-definite is an internal contradiction of the oracle (raises).
#   * cross-check 2: the leading principal minors (`minors`, kept) must give the same verdict -- an empirical test of
#     Sylvester's criterion on every generated matrix, not the source of the verdict.
def elem_sym(M):
    n = len(M)
    A = [[Fraction(x) for x in row] for row in M]
    coeff = [Fraction(0)] * (n + 1)  # det(tI - A) = sum coeff[i] t^i
    coeff[n] = Fraction(1)
    Mk = [[Fraction(0)] * n for _ in range(n)]
    for k in range(1, n + 1):
        AM = [[sum(A[i][l] * Mk[l][j] for l in range(n)) for j in range(n)] for i in range(n)]
        Mk = [[AM[i][j] + (coeff[n - k + 1] if i == j else 0) for j in range(n)] for i in range(n)]
        AMk = [[sum(A[i][l] * Mk[l][j] for l in range(n)) for j in range(n)] for i in range(n)]
        coeff[n - k] = -sum(AMk[i][i] for i in range(n)) / k
    return [(-1) ** k * coeff[n - k] for k in range(1, n + 1)]


def qform_witness(M, radius=None):
    """an integer vector x != 0 with x^T M x <= 0 on the grid [-radius, radius]^n, or None"""
    n = len(M)
    radius = radius if radius is not None else 6  # 6 finds a witness for every rejected matrix of the generator's ranges
    for x in itertools.product(range(-radius, radius + 1), repeat=n):
        if any(x) and sum(x[i] * M[i][j] * x[j] for i in range(n) for j in range(n)) <= 0:
            return list(x)
    return None


_DEF_CACHE: dict = {}
ORACLE_STATS = {"matrices_classified": 0, "pd": 0, "singular_psd": 0, "negative_direction": 0,
                "rejected_with_grid_witness": 0, "rejected_without_grid_witness": 0,
                "singular_psd_float_exact_cases": 0, "singular_psd_rounding_cases": 0, "singular_psd_rounding_accepted": 0}


def definiteness(M):
    """'pd' | 'singular-psd' | 'neg' (some x with x^T M x < 0) for a SYMMETRIC integer matrix"""
    key = tuple(tuple(r) for r in M)
    if key in _DEF_CACHE:
        return _DEF_CACHE[key]
    es = elem_sym(M)
    verdict = "pd" if all(e > 0 for e in es) else ("singular-psd" if all(e >= 0 for e in es) else "neg")
    w = qform_witness(M)
    if verdict == "pd" and w is not None:
        raise AssertionError(f"oracle contradiction: {M} classified positive-definite but x={w} has x^T M x <= 0")
    if (verdict == "pd") != all(x > 0 for x in minors(M)):
        raise AssertionError(f"oracle contradiction: characteristic polynomial and leading minors disagree on {M}")
    ORACLE_STATS["matrices_classified"] += 1
    ORACLE_STATS[{"pd": "pd", "singular-psd": "singular_psd", "neg": "negative_direction"}[verdict]] += 1
    if verdict != "pd" and len(M) > 0:
        ORACLE_STATS["rejected_with_grid_witness" if w is not None else "rejected_without_grid_witness"] += 1
    _DEF_CACHE[key] = verdict
    return verdict


# Exactly singular positive-SEMI-definite matrices are not positive-definite, so the documented condition rejects them
# (the repository's own test_pos_def pins this with np.ones((10, 2, 2))).  The implementation tests the floating-point
# eigenvalues of np.linalg.eigvals (LAPACK geev) against > 0 with no tolerance, so for such a matrix the verdict is the
# sign of a rounding error unless LAPACK reproduces the zero eigenvalue as exactly 0.0.  Families on which it does
# (probed member by member on the pinned numpy, design_probes/c12_singular_eigvals.py; demanded at every run):
#   (a) a zero row/column (the balancing step isolates the index and returns the diagonal entry 0.0 itself): covers
#       every diagonal matrix with a 0, the zero matrix, a definite block beside a 0 entry;
#   (b) the literal list below: v v^T for the listed small integer v, and a rank-one 2x2 block beside a positive entry.
# Every other exactly singular PSD matrix (e.g. [[2,2],[2,2]]: accepted with eigenvalue +4.4e-16, while [[3,3],[3,3]]
# is rejected with -8.9e-16) lies on the boundary that the property's quantifier leaves out: generated, counted, no verdict demanded.
_V2 = [v for v in itertools.product((-2, -1, 1, 2), repeat=2)]
_V3 = [(1, 1, 1), (1, -1, 1), (1, 1, -1), (1, 1, 2), (2, 1, 1), (1, 2, 2), (2, 1, 2), (2, 2, 1), (2, -1, 1), (1, -2, 2), (2, 2, 2)]


def outer(v):
    return [[a * b for b in v] for a in v]


def block3(B, p, pos):
    """3x3: the 2x2 block B on the two indices other than pos, the entry p at (pos, pos)"""
    rest = [k for k in range(3) if k != pos]
    M = [[0] * 3 for _ in range(3)]
    M[pos][pos] = p
    for a in range(2):
        for b in range(2):
            M[rest[a]][rest[b]] = B[a][b]
    return M


_EXACT_LITERALS = {tuple(tuple(r) for r in outer(v)) for v in _V2 + _V3} | {
    tuple(tuple(r) for r in block3(outer(v), p, pos)) for v in _V2 for p in (1, 2, 5) for pos in range(3)}


def float_exact_singular(M):
    n = len(M)
    return any(all(M[i][j] == 0 for j in range(n)) for i in range(n)) or tuple(tuple(r) for r in M) in _EXACT_LITERALS


def ambiguous(M):
    """Exactly singular PSD matrices whose zero eigenvalue LAPACK does not reproduce exactly: kept out of the random
    dispatch stream (the dedicated singular block below generates them, oracle-only, under the open finding)."""
    return is_sym(M) and len(M) > 0 and definiteness(M) == "singular-psd" and not float_exact_singular(M)


# ---------------------------------------------------------------- generation
RADIUS_SCALE = 4


def radius_value(v):
    """a radius of a case: an int, a float that is a multiple of 1/4, or one of the strings "nan" / "-0.0" (JSON-safe)"""
    return float(v) if isinstance(v, str) else v


def shape_case(axes, sphere=None, ellipsoid=None, cfg=(False, True, True, False, False), n=None):
    n = n if n is not None else (ellipsoid["shape"][0] if ellipsoid is not None else sphere["shape"][0])
    return {"kind": "data", "cfg": list(cfg), "directed": True, "dt": "uint8", "ids": list(range(n)),
            "edges": [[i, i + 1] for i in range(n - 1)], "axes": list(axes), "sphere": sphere, "ellipsoid": ellipsoid, "track": None}


def singular_matrices(rng, tier):
    """(label, matrix): exactly singular symmetric integer matrices, exact in float64, for sides 1, 2, 3"""
    out = [("zero1", [[0]]), ("zero2", [[0, 0], [0, 0]]), ("zero3", [[0] * 3 for _ in range(3)])]
    for d in itertools.product((0, 1, 2, 5), repeat=2):
        if 0 in d and any(d):
            out.append(("diag2", [[d[0], 0], [0, d[1]]]))
    for d in itertools.product((0, 1, 2), repeat=3):
        if 0 in d and any(d):
            out.append(("diag3", [[d[i] if i == j else 0 for j in range(3)] for i in range(3)]))
    out += [("rank1-2", outer(v)) for v in _V2] + [("rank1-3", outer(v)) for v in _V3]
    # rank one with a zero component (zero row/column), side 2 and 3
    out += [("rank1-zero", outer(v)) for v in ((1, 0), (0, 2), (1, 2, 0), (0, 1, -1), (2, 0, 1), (0, 0, 3))]
    # one definite block beside a 0 entry, one singular block beside a positive entry, at every position
    for pos in range(3):
        for B in ([[2, 1], [1, 2]], [[2, -1], [-1, 1]], [[1, 2], [2, 5]]):
            out.append(("block-pd+0", block3(B, 0, pos)))
        for v in ((1, 1), (1, -1), (1, 2), (2, -1), (2, 2)):
            for p in (1, 2, 5):
                out.append(("block-sing+pd", block3(outer(v), p, pos)))
    # singular and indefinite (a zero leading minor AND a negative direction): clearly outside
    out += [("indef-sing", M) for M in ([[0, 1], [1, 0]], [[0, 2], [2, 3]], [[1, 0, 0], [0, -1, 0], [0, 0, 0]], [[0, 1, 0], [1, 0, 0], [0, 0, 1]],
                                        [[1, 2, 1], [2, 4, 2], [1, 2, -1]], [[0, 0, 1], [0, 1, 0], [1, 0, 0]], [[1, 1, 0], [1, 1, 1], [0, 1, 1]])]
    # exactly singular PSD, zero eigenvalue NOT reproduced exactly by LAPACK (open finding; oracle-only)
    rounding = [[[2, 2], [2, 2]], [[3, 3], [3, 3]], [[5, 5], [5, 5]], [[6, 6], [6, 6]], [[2, -2], [-2, 2]], outer((1, 2, 1)), outer((3, 1, 2)),
                outer((1, -2, 1)), [[1, -2, 0], [-2, 5, -1], [0, -1, 1]], [[1, -2, -1], [-2, 4, 2], [-1, 2, 3]], [[1, -2, -2], [-2, 5, 4], [-2, 4, 4]],
                block3([[2, 2], [2, 2]], 1, 0), block3([[2, -2], [-2, 2]], 3, 2)]
    for _ in range(40 if tier == "quick" else 250):
        v = [rng.randint(-2, 2) for _ in range(3)]
        w = [rng.randint(-2, 2) for _ in range(3)]
        M = [[v[i] * v[j] + w[i] * w[j] for j in range(3)] for i in range(3)]
        if any(v) or any(w):
            rounding.append(M)
    for M in rounding:
        out.append(("rank-deficient-dense" if ambiguous(M) else "rank-deficient-exact", M))
    if tier == "quick":  # at most 6 matrices of a family (the literal rounding examples always), all of them in the thorough tier
        by = {}
        for lab, M in out:
            by.setdefault(lab, []).append(M)
        out = []
        for lab, Ms in by.items():
            head = Ms[:10] if lab == "rank-deficient-dense" else []
            rest = Ms[len(head):]
            out += [(lab, M) for M in head + (rest if len(rest) <= 6 else rng.sample(rest, 6))]
    # the negatives: negative semi-definite, a clearly negative eigenvalue
    out += [(lab + "-neg", [[-x for x in r] for r in M]) for lab, M in list(out) if any(any(r) for r in M)]
    return out


def singular_cases(rng, tier):
    """finding 23: exactly singular matrices (positive SEMI-definite, so to be rejected: separates `> 0` from `>= 0`), alone,
    between definite matrices, and flagged missing (then accepted); and an (n, 0, 0) stack with axes but no spatial axis
    (separates `spatial_dim > 0` from `>= 0`)"""
    pd = {1: [[3]], 2: [[2, -1], [-1, 2]], 3: [[2, -1, 0], [-1, 2, -1], [0, -1, 2]]}
    only_ell = (False, False, True, False, False)
    for lab, M in singular_matrices(rng, tier):
        side = len(M)
        axes = ["space"] * side
        yield {**shape_case(axes, ellipsoid={"shape": [1, side, side], "mats": [M], "missing": None}, cfg=only_ell), "fam": lab}
        axes2 = axes + ["time"] if rng.random() < 0.5 else axes
        stack = [pd[side], M, pd[side]]
        yield {**shape_case(axes2, ellipsoid={"shape": [3, side, side], "mats": stack, "missing": None}, cfg=only_ell), "fam": lab}
        yield {**shape_case(axes2, ellipsoid={"shape": [3, side, side], "mats": stack, "missing": [False, True, False]}, cfg=only_ell), "fam": lab}
        if tier == "thorough" or rng.random() < 0.3:
            yield {**shape_case(axes, ellipsoid={"shape": [3, side, side], "mats": stack, "missing": [True, False, False]}, cfg=only_ell), "fam": lab}
            yield {**shape_case(axes, ellipsoid={"shape": [1, side, side], "mats": [M], "missing": None},
                                cfg=(False, False, False, False, False)), "fam": lab}
    # asymmetric although every eigenvalue is positive (triangular with a positive diagonal) or has a positive real part
    # (definite + antisymmetric: complex pair): only the symmetry test can reject these
    asym = [[[4, 0], [-1, 5]], [[2, 1], [0, 2]], [[1, 3], [0, 1]], [[2, 1], [-1, 2]], [[3, -2], [2, 3]], [[5, 1], [2, 5]],
            [[2, 1, 0], [0, 2, 1], [0, 0, 2]], [[1, 0, 0], [2, 3, 0], [-1, 4, 5]], [[2, -1, 0], [-1, 2, -1], [0, 1, 2]],
            [[3, 1, 0], [-1, 3, 0], [0, 0, 1]], [[2, 0, 1], [0, 2, 0], [0, 0, 2]], [[4, 1, 1], [1, 4, 1], [1, 2, 4]]]
    for M in asym:
        side = len(M)
        axes = ["space"] * side
        for T in (M, [list(r) for r in zip(*M)]):
            yield {**shape_case(axes, ellipsoid={"shape": [1, side, side], "mats": [T], "missing": None}, cfg=only_ell), "fam": "asym-poseig"}
            yield {**shape_case(axes, ellipsoid={"shape": [3, side, side], "mats": [pd[side], pd[side], T], "missing": None}, cfg=only_ell), "fam": "asym-poseig"}
            yield {**shape_case(axes, ellipsoid={"shape": [3, side, side], "mats": [pd[side], pd[side], T], "missing": [False, False, True]}, cfg=only_ell),
                   "fam": "asym-poseig"}
    # no spatial axis although axes are declared: nothing can be a covariance matrix, whatever its shape
    for axes in (["time"], ["time", "channel"], []):
        for n in (0, 1, 2):
            for side in (0, 1):
                mats = [[[1] * side for _ in range(side)] for _ in range(n)]
                for miss in (None, [False] * n):
                    yield {**shape_case(axes, ellipsoid={"shape": [n, side, side], "mats": mats, "missing": miss}, cfg=only_ell, n=n), "fam": "no-space-axis"}


def radii_cases(rng, tier):
    """finding 7: float radii that are not integers: negative fractions in (-1, 0), -0.0, NaN, beside the integer ones.
    Scaled by 4 for the model (sphere_rows_scaled); a case holding a NaN is oracle-only (the code accepts NaN: not negative)."""
    only_sph = (False, True, False, False, False)
    pool = [0, 1, 2.5, 0.25, "-0.0", -0.5, -0.25, -0.75, -1, "nan", 3]
    fixed = [[-0.5], [-0.25], [-0.75], ["-0.0"], ["nan"], [0.25], ["nan", 1], ["nan", -0.5], [1, "-0.0", 2.5], [1, -0.25, 2]]
    for vals in fixed:
        n = len(vals)
        yield shape_case([], sphere={"shape": [n], "vals": vals, "float": True, "missing": None}, cfg=only_sph)
        for k in range(n):  # each entry in turn flagged missing
            yield shape_case([], sphere={"shape": [n], "vals": vals, "float": True, "missing": [i == k for i in range(n)]}, cfg=only_sph)
    for _ in range(60 if tier == "quick" else 600):
        n = rng.randint(1, 4)
        vals = [rng.choice(pool) if rng.random() < 0.4 else rng.choice([0, 1, 2.5, 0.25, 3]) for _ in range(n)]
        miss = [rng.random() < 0.4 for _ in range(n)] if rng.random() < 0.5 else None
        yield shape_case([], sphere={"shape": [n], "vals": vals, "float": True, "missing": miss}, cfg=only_sph if rng.random() < 0.8 else (False, False, False, False, False))


def generate(rng: random.Random, tier: str):
    alpha = [0, 1, 2]
    for n in range(5):
        for ids in itertools.product(alpha, repeat=n):
            yield {"kind": "unique", "dt": "uint8", "ids": list(ids)}
    for n in range(4):
        for es in itertools.product(pairs(alpha), repeat=n):
            edges = [list(e) for e in es]
            yield {"kind": "repeated", "dt": "int64", "edges": edges}
            if n <= 2 or tier == "thorough":
                yield {"kind": "self", "dt": "int64", "edges": edges}
                yield {"kind": "nodes_for_edges", "dt": "int64", "ids": [0, 1], "edges": edges}
            for directed in (True, False):
                for ids in ([0, 1, 2], [0, 1]) if (n <= 2 or tier == "thorough") else ([0, 1, 2],):
                    yield {"kind": "data", "cfg": [True, False, False, False, False], "directed": directed, "dt": "uint16",
                           "ids": ids, "edges": edges, "axes": [], "sphere": None, "ellipsoid": None, "track": None}
    nrand = 300 if tier == "quick" else 4000
    for _ in range(nrand):
        dt = rng.choice(INT_DTYPES)
        ids = rand_ids(rng, dt, rng.randint(0, 6))
        pool = ids + rand_ids(rng, dt, 2) if ids else rand_ids(rng, dt, 2)
        edges = [[rng.choice(pool), rng.choice(pool)] for _ in range(rng.randint(0, 6))]
        k = rng.choice(["unique", "nodes_for_edges", "self", "repeated", "data", "data"])
        if k == "data":
            yield {"kind": "data", "cfg": [True, False, False, False, False], "directed": rng.random() < 0.5, "dt": dt,
                   "ids": ids, "edges": edges, "axes": [], "sphere": None, "ellipsoid": None, "track": None}
        else:
            yield {"kind": k, "dt": dt, "ids": ids, "edges": edges}
    # 64-bit ids that differ but are equal after a detour through float64 (adjacent integers above 2^53, at the dtype limits)
    for dt in ("int64", "uint64"):
        info = np.iinfo(dt)
        bases = [2**53, 2**53 + 2, 2**62, info.max - 1, info.max - 3] + ([info.min, -2**53 - 1] if info.min < 0 else [2**63, 2**63 - 1])
        for b in bases:
            a, a2, c0 = b, b + 1, rng.choice([0, 1, 7, b - 5 if b > 10 else 9])
            for edges in ([[a, c0], [a2, c0]], [[c0, a], [c0, a2]], [[a, a2], [a2, a]], [[a, a2], [c0, a]], [[a, c0], [a2, c0], [a, c0]]):
                ids = [a, a2, c0]
                for k in ("repeated", "nodes_for_edges", "unique", "self"):
                    yield {"kind": k, "dt": dt, "ids": ids if k != "unique" else [a, a2, c0, a2][: rng.choice([3, 4])], "edges": edges}
                for directed in (True, False):
                    yield {"kind": "data", "cfg": [True, False, False, False, False], "directed": directed, "dt": dt,
                           "ids": ids if rng.random() < 0.8 else [a, c0], "edges": edges, "axes": [], "sphere": None, "ellipsoid": None, "track": None}
    # larger, sparse arrays: numpy switches algorithms (sort / table / loop paths of isin, unique) with size and value range
    for _ in range(160 if tier == "quick" else 2000):
        dt = rng.choice(INT_DTYPES)
        info = np.iinfo(dt)
        n = rng.randint(12, 40)
        sparse = rng.random() < 0.7 and info.max > 1000
        def rid():
            if sparse:
                return rng.choice([info.min, info.max, rng.randint(info.min, info.max), rng.randint(info.min, info.max)])
            return rng.randint(max(info.min, -20), min(info.max, 60))
        ids = list({rid() for _ in range(n)}) if rng.random() < 0.8 else [rid() for _ in range(n)]
        rng.shuffle(ids)
        dangling = [rid() for _ in range(rng.randint(0, 3))]
        pool = ids + dangling * 3
        edges = [[rng.choice(pool), rng.choice(pool)] for _ in range(rng.randint(8, 40))]
        if rng.random() < 0.3 and edges:
            edges += [list(rng.choice(edges)) for _ in range(3)] + [list(reversed(rng.choice(edges)))]
        k = rng.choice(["unique", "nodes_for_edges", "nodes_for_edges", "self", "repeated", "data"])
        if k == "data":
            yield {"kind": "data", "cfg": [True, False, False, False, False], "directed": rng.random() < 0.5, "dt": dt,
                   "ids": ids, "edges": edges, "axes": [], "sphere": None, "ellipsoid": None, "track": None}
        else:
            yield {"kind": k, "dt": dt, "ids": ids, "edges": edges}
    yield from singular_cases(rng, tier)
    yield from radii_cases(rng, tier)
    # shapes + dispatch
    for _ in range(500 if tier == "quick" else 5000):
        n = rng.randint(0, 4)
        ids = list(range(n))
        nspace = rng.choice([0, 1, 2, 2, 3, 3])
        axes = ["space"] * nspace + (["time"] if rng.random() < 0.4 else [])
        rng.shuffle(axes)
        sphere = None
        if rng.random() < 0.7:
            nd = rng.choice([1, 1, 1, 2])
            isf = rng.random() < 0.5
            shape = [n] if nd == 1 else [n, 2]
            cnt = n if nd == 1 else 2 * n
            vals = [rng.choice([0, 1, 2, 3, -1, -2, 5]) if rng.random() < 0.35 else rng.choice([0, 1, 2, 3, 7]) for _ in range(cnt)]
            miss = [rng.random() < 0.4 for _ in range(n)] if rng.random() < 0.5 else None
            sphere = {"shape": shape, "vals": vals, "float": isf, "missing": miss}
        ell = None
        if rng.random() < 0.7:
            side = rng.choice([nspace, nspace, nspace, 1, 2, 3])
            if side == 0 and rng.random() < 0.5:
                side = 1  # otherwise: an (n, 0, 0) stack without any spatial axis (must be rejected: no space axes)
            form = rng.choice(["ok", "ok", "ok", "ok", "rect", "nd2", "nd4"])
            mode = rng.choice(["pd", "pd", "pd", "sym", "any"])
            if form == "ok":
                mats = [rand_matrix(rng, side, mode if rng.random() < 0.8 else "any") for _ in range(n)]
                shape = [n, side, side]
            elif form == "rect":
                mats = [[[rng.randint(0, 3) for _ in range(side + 1)] for _ in range(side)] for _ in range(n)]
                shape = [n, side, side + 1]
            elif form == "nd2":
                mats = [[[rng.randint(1, 3)] * 1 for _ in range(side)] for _ in range(n)]
                shape = [n, side]
            else:
                mats = [[[[1, 0], [0, 1]] for _ in range(side)] for _ in range(n)]
                shape = [n, side, 2, 2]
            miss = [rng.random() < 0.4 for _ in range(n)] if rng.random() < 0.5 else None
            if form == "ok" and any(ambiguous(m) for m in mats):
                continue
            ell = {"shape": shape, "mats": mats, "missing": miss}
        track = None
        if rng.random() < 0.3:
            track = {"tracklet": list(range(n)) if rng.random() < 0.7 else None,
                     "lineage": list(range(n)) if rng.random() < 0.7 else None}
        cfg = [rng.random() < 0.5 for _ in range(5)]
        edges = [[i, i + 1] for i in range(n - 1)] if rng.random() < 0.8 else ([[0, 0]] if n else [])
        yield {"kind": "data", "cfg": cfg, "directed": rng.random() < 0.5, "dt": "uint8", "ids": ids, "edges": edges,
               "axes": axes, "sphere": sphere, "ellipsoid": ell, "track": track}
    yield from gen_dispatch5(rng, tier)


# ---------------------------------------------------------------- dispatch with all five flags (DataVal.v)
# covariance matrices clearly inside / clearly outside the symmetric positive-definite set, by side
MATS_PD = {1: [[[2]], [[1]], [[5]]], 2: [[[2, 1], [1, 2]], [[1, 0], [0, 3]], [[5, -2], [-2, 1]]],
           3: [[[2, -1, 0], [-1, 2, -1], [0, -1, 2]], [[1, 0, 0], [0, 2, 0], [0, 0, 3]]]}
MATS_NOT_PD = {1: [[[-1]], [[-3]]], 2: [[[1, 2], [2, 1]], [[-1, 0], [0, 2]]],
               3: [[[1, 2, 0], [2, 1, 0], [0, 0, 1]], [[-2, 0, 0], [0, 1, 0], [0, 0, 1]]]}
MATS_NOT_SYM = {1: [[[-2]]], 2: [[[1, 2], [0, 1]], [[2, 1], [-1, 2]]], 3: [[[1, 0, 1], [0, 1, 0], [0, 0, 1]]]}


def mask_for(rng, n, singles, mode):
    """a missing mask over n positions: None | only positions in `singles` (masking them keeps a valid annotation valid) | anything"""
    if mode == "none" or n == 0:
        return None
    if mode == "singles":
        return [i in singles and rng.random() < 0.7 for i in range(n)]
    if mode == "all":
        return [True] * n
    return [rng.random() < 0.35 for _ in range(n)]


def fill(rng, vals, mask, pool):
    """adversarial fill values under the missing flags: an id that exists, a fresh one, 0, -1"""
    if mask is None:
        return vals
    return [rng.choice(pool) if i < len(mask) and mask[i] else v for i, v in enumerate(vals)]


def track_props_for(rng, ids, edges, which, state):
    """the tracklet / lineage property of a graph in the requested state: 'valid' (documented partition; masks only on nodes that form a
    class of their own), 'masked' (documented partition, any mask: a masked node inside a class or next to one usually invalidates it),
    'perturbed' (merge / split / move), 'unmasked-fill' (valid with a mask, then the mask dropped so that the fill values are read)"""
    from harness.c13 import perturb, reference_partition

    n = len(ids)
    every = list(dict.fromkeys(list(ids) + [x for e in edges for x in e]))
    if which == "tracklet":
        part = sorted(reference_partition(every, edges), key=lambda cl: min(cl))
        part = sorted(set(part) | {frozenset([x]) for x in every if not any(x in cl for cl in part)}, key=lambda cl: min(cl))
    else:
        part = sorted(weak_components(every, [tuple(e) for e in edges]), key=lambda cl: min(cl))
    lab = {x: k for k, cl in enumerate(part) for x in cl}
    vals = [lab[x] + 3 for x in ids]
    singles = {i for i, x in enumerate(ids) if len(part[lab[x]]) == 1}
    if state == "perturbed":
        vals = [v + 3 for v in perturb(rng, list(ids), [cl & set(ids) for cl in part if cl & set(ids)])] if n else []
    mode = {"valid": rng.choice(["none", "singles", "singles"]), "masked": rng.choice(["any", "any", "all"]),
            "perturbed": rng.choice(["none", "singles", "any"]), "unmasked-fill": "singles"}[state]
    mask = mask_for(rng, n, singles, mode)
    pool = sorted(set(vals)) + [max(vals, default=0) + 1, 0, -1]
    vals = fill(rng, vals, mask, pool)
    if state == "unmasked-fill":
        mask = None
    return {"vals": vals, "missing": mask}


def small_graph(rng):
    """ids and edges of a small digraph: forests, chains with divisions / merges, isolated nodes, sometimes a cycle"""
    n = rng.choice([0, 1, 2, 3, 3, 4, 4, 5, 6])
    big = rng.random() < 0.1
    pool = [0, 1, 2**32, 2**53 + 1, 2**63 - 1, 2**63, 2**64 - 1, 97] if big else list(range(12))
    ids = rng.sample(pool, n)
    edges = []
    for j in range(1, n):
        r = rng.random()
        if r < 0.65:
            edges.append([ids[rng.randrange(max(0, j - 2), j)], ids[j]])
        if r > 0.9:
            edges.append([ids[rng.randrange(0, j)], ids[j]])
    if n >= 2 and rng.random() < 0.12:
        a, b = rng.sample(ids, 2)
        edges.append([b, a])          # may close a cycle
    edges = [list(e) for e in dict.fromkeys(map(tuple, edges))]
    return ids, edges, ("uint64" if big else "uint8")


def break_graph(rng, ids, edges):
    """one graph fault (or two, so that the order of the four graph checks shows)"""
    ids, edges = list(ids), [list(e) for e in edges]
    for _ in range(rng.choice([1, 1, 2])):
        k = rng.choice(["dup", "dangling", "self", "repeat", "reverse"])
        if k == "dup" and ids:
            ids.append(rng.choice(ids))
        elif k == "dangling" and ids:
            edges.append([rng.choice(ids), 11 if 11 not in ids else 10])
        elif k == "self" and ids:
            x = rng.choice(ids)
            edges.append([x, x])
        elif k == "repeat" and edges:
            edges.append(list(rng.choice(edges)))
        elif k == "reverse" and edges:
            edges.append(list(reversed(rng.choice(edges))))
    return ids, edges


def shape_props(rng, n, nspace, sph_state, ell_state):
    sphere = ell = None
    if sph_state == "absent":
        sphere = "absent"
    elif sph_state is not None:
        mask = [rng.random() < 0.4 for _ in range(n)] if rng.random() < 0.6 else None
        vals = [rng.choice([0, 1, 2, 7]) for _ in range(n)]
        if mask is not None:                          # adversarial fill: a negative radius under the missing flag
            vals = [rng.choice([-1, -5]) if m else v for v, m in zip(vals, mask)]
        if sph_state == "bad" and n:
            if rng.random() < 0.25:
                sphere = {"shape": [n, 2], "vals": [v for v in vals for _ in (0, 1)], "float": rng.random() < 0.5, "missing": mask}
            else:
                pos = [i for i in range(n) if mask is None or not mask[i]] or [0]
                if mask is not None and mask[pos[0]]:
                    mask[pos[0]] = False
                vals[rng.choice(pos)] = -2
        if sphere is None:
            sphere = {"shape": [n], "vals": vals, "float": rng.random() < 0.5, "missing": mask}
    if ell_state == "absent":
        ell = "absent"
    elif ell_state is not None:
        side = nspace if nspace else rng.choice([1, 2])
        mask = [rng.random() < 0.4 for _ in range(n)] if rng.random() < 0.6 else None
        mats = [rng.choice(MATS_PD[side]) for _ in range(n)]
        if mask is not None:                          # adversarial fill: a matrix that is not positive-definite / not symmetric
            mats = [rng.choice(MATS_NOT_PD[side] + MATS_NOT_SYM[side]) if m else a for a, m in zip(mats, mask)]
        shape = [n, side, side]
        if ell_state == "bad" and n:
            kind = rng.choice(["notpd", "notsym", "both", "side", "rect"])
            pos = [i for i in range(n) if mask is None or not mask[i]] or [0]
            if mask is not None and mask[pos[0]]:
                mask[pos[0]] = False
            if kind in ("notpd", "both"):
                mats[rng.choice(pos)] = rng.choice(MATS_NOT_PD[side])
            if kind in ("notsym", "both"):
                mats[rng.choice(pos)] = rng.choice(MATS_NOT_SYM[side])
            if kind == "side":
                other = side % 3 + 1
                mats, shape = [rng.choice(MATS_PD[other]) for _ in range(n)], [n, other, other]
            if kind == "rect":
                mats, shape = [[row + [0] for row in a] for a in mats], [n, side, side + 1]
        ell = {"shape": shape, "mats": mats, "missing": mask}
    return sphere, ell


def gen_dispatch5(rng, tier):
    """validate_data as a whole: all 2^5 configs x every declaration state of the four properties (undeclared / declared but absent from
    node_props / stored and valid on the non-missing entries / stored and invalid), real missing masks with adversarial fill values,
    track_node_props None / {} / one key / both keys, graphs that fail one or two of the graph checks"""
    states = [None, "absent", "ok", "bad"]
    tstates = [None, "absent", "valid", "masked", "perturbed", "unmasked-fill"]
    # systematic block: every config x every combination of declaration states, on a fixed family of graphs
    combos = [(a, b, tk, ln, tr) for a in states for b in states
              for tr in ("none", "dict") for tk in (tstates if tr == "dict" else [None]) for ln in (tstates if tr == "dict" else [None])]
    for ci in range(32):
        cfg = [bool(ci >> b & 1) for b in range(5)]
        for a, b, tk, ln, tr in combos:
            if tier == "quick" and rng.random() > 0.07:
                continue
            yield dispatch5_case(rng, cfg, a, b, tk, ln, tr, broken=rng.random() < 0.15)
    # random block: declared states biased towards stored properties, array lengths that do not match now and then
    for _ in range(1200 if tier == "quick" else 12000):
        cfg = [rng.random() < 0.6 for _ in range(5)]
        tr = rng.choice(["none", "dict", "dict", "dict", "dict"])
        wt = [1, 1, 6, 4]
        wtt = [2, 1, 6, 5, 5, 2]
        c = dispatch5_case(rng, cfg, rng.choices(states, wt)[0], rng.choices(states, wt)[0],
                           rng.choices(tstates, wtt)[0] if tr == "dict" else None, rng.choices(tstates, wtt)[0] if tr == "dict" else None,
                           tr, broken=rng.random() < 0.2)
        if rng.random() < 0.06:
            misfit(rng, c)
        yield c
    # track-focused block: graph / sphere / ellipsoid valid or undeclared, so that the tracklet and lineage branches are reached
    for _ in range(1500 if tier == "quick" else 15000):
        cfg = [rng.random() < 0.4, rng.random() < 0.4, rng.random() < 0.4, rng.random() < 0.75, rng.random() < 0.75]
        wtt = [1, 0, 6, 5, 5, 2]
        c = dispatch5_case(rng, cfg, rng.choice([None, "ok"]), rng.choice([None, "ok"]), rng.choices(tstates, wtt)[0], rng.choices(tstates, wtt)[0],
                           "dict", broken=False, nspace_min=1)
        if rng.random() < 0.1:                       # a broken graph with graph validation off: the track validators see it
            c["cfg"][0] = False
            c["ids"], c["edges"] = break_graph(rng, c["ids"], c["edges"])
            for k in ("tracklet", "lineage"):        # keep the arrays aligned with the (possibly longer) id array
                tp = c["track"][k]
                if isinstance(tp, dict):
                    extra = len(c["ids"]) - len(tp["vals"])
                    tp["vals"] = tp["vals"] + [rng.choice(tp["vals"] + [99]) for _ in range(extra)]
                    if tp["missing"] is not None:
                        tp["missing"] = tp["missing"] + [rng.random() < 0.3 for _ in range(extra)]
            for k in ("sphere", "ellipsoid"):
                c[k] = None
        yield c


def dispatch5_case(rng, cfg, sph_state, ell_state, tk_state, ln_state, tr, broken, nspace_min=0):
    ids, edges, dt = small_graph(rng)
    if broken:
        ids, edges = break_graph(rng, ids, edges)
    n = len(ids)
    nspace = max(nspace_min, rng.choice([0, 1, 2, 2, 3]))
    axes = ["space"] * nspace + (["time"] if rng.random() < 0.4 else [])
    rng.shuffle(axes)
    sphere, ell = shape_props(rng, n, nspace, sph_state, ell_state)
    track = None
    if tr == "dict":
        track = {"dict": True}
        for k, st in (("tracklet", tk_state), ("lineage", ln_state)):
            track[k] = None if st is None else "absent" if st == "absent" else track_props_for(rng, ids, edges, k, st)
    return {"kind": "data", "d5": True, "cfg": cfg, "directed": rng.random() < 0.7, "dt": dt, "ids": ids, "edges": edges, "axes": axes,
            "sphere": sphere, "ellipsoid": ell, "track": track, "states": [sph_state, ell_state, tk_state, ln_state, tr, broken]}


def misfit(rng, c):
    """a missing mask / value array whose length differs from the number of nodes (numpy: IndexError; zip: truncation)"""
    n = len(c["ids"])
    k = rng.choice(["sphere", "ellipsoid", "tracklet", "lineage"])
    tgt = c[k] if k in ("sphere", "ellipsoid") else (c["track"] or {}).get(k)
    if not isinstance(tgt, dict) or n == 0:
        return
    if k in ("sphere", "ellipsoid") or rng.random() < 0.5:
        tgt["missing"] = [rng.random() < 0.3 for _ in range(n + rng.choice([-1, 1, 2]))]
    else:
        tgt["vals"] = (tgt["vals"] + [tgt["vals"][0]])[: n + rng.choice([-1, 1])]
        if rng.random() < 0.5:
            tgt["missing"] = None
    c["states"] = c["states"] + ["misfit:" + k]


# ---------------------------------------------------------------- implementation
def build_geff(c):
    from geff_spec import Axis, GeffMetadata

    n = len(c["ids"])
    node_props = {}
    axes = [Axis(name=f"a{i}", type=t) for i, t in enumerate(c["axes"])] or None
    sphere = ell = None
    if c["sphere"] == "absent":        # declared in the metadata, no such key in node_props
        sphere = "r"
    elif c["sphere"] is not None:
        s = c["sphere"]
        node_props["r"] = {"values": np.array([radius_value(v) for v in s["vals"]], dtype="float64" if s["float"] else "int64").reshape(s["shape"]),
                           "missing": None if s["missing"] is None else np.array(s["missing"], dtype=bool)}
        sphere = "r"
    if c["ellipsoid"] == "absent":
        ell = "cov"
    elif c["ellipsoid"] is not None:
        e = c["ellipsoid"]
        node_props["cov"] = {"values": np.array(e["mats"], dtype="float64").reshape(e["shape"]),
                             "missing": None if e["missing"] is None else np.array(e["missing"], dtype=bool)}
        ell = "cov"
    track = None
    if c["track"] is not None:
        track = {}
        for k in ("tracklet", "lineage"):
            tp = track_prop(c, k)
            if tp == "absent":
                track[k] = k
            elif tp is not None:
                node_props[k] = {"values": np.array(tp["vals"], dtype="int64"),
                                 "missing": None if tp["missing"] is None else np.array(tp["missing"], dtype=bool)}
                track[k] = k
        if not c["track"].get("dict"):      # {"dict": True}: keep an empty track_node_props dict (same behaviour as None)
            track = track or None
    md = GeffMetadata(directed=c["directed"], axes=axes, node_props_metadata={}, edge_props_metadata={},
                      sphere=sphere, ellipsoid=ell, track_node_props=track)
    return {"metadata": md, "node_ids": np.array(c["ids"], dtype=c["dt"]),
            "edge_ids": np.array(c["edges"], dtype=c["dt"]).reshape(-1, 2), "node_props": node_props, "edge_props": {}}


def track_prop(c, k):
    """None (key not in track_node_props) | "absent" (declared, not in node_props) | {"vals": [...], "missing": [...] | None}"""
    tr = c.get("track")
    if tr is None or tr.get(k) is None:
        return None
    v = tr[k]
    if isinstance(v, list):             # older case format: values without a mask
        return {"vals": v, "missing": None}
    return v


# which raise statement fired, from the message (DataVal.fault)
FAULTS = [("Some node ids are not unique", "(FGraph FNonUnique)"), ("Some edges are missing nodes", "(FGraph FMissingNodes)"),
          ("Self edges found", "(FGraph FSelfEdge)"), ("Repeated edges found", "(FGraph FRepeated)"),
          ("Sphere radius values must be 1D", "FSphereDim"), ("Sphere radius values must be non-negative", "FSphereNeg"),
          ("Must define space axes", "FEllNoSpace"), ("must have 3 dimensions", "FEllDim"),
          ("Spatial dimensions of covariance matrix must be equal", "FEllSquare"), ("spatial dimensions, got", "FEllSide"),
          ("must be symmetric", "FEllSym"), ("must be positive-definite", "FEllPD"),
          ("Found invalid tracklets", "FTracklets"), ("Found invalid lineages", "FLineages")]
FAULT_GROUP = {"(FGraph FNonUnique)": "graph", "(FGraph FMissingNodes)": "graph", "(FGraph FSelfEdge)": "graph", "(FGraph FRepeated)": "graph",
               "FSphereDim": "sphere", "FSphereNeg": "sphere", "FEllNoSpace": "ellipsoid", "FEllDim": "ellipsoid", "FEllSquare": "ellipsoid",
               "FEllSide": "ellipsoid", "FEllSym": "ellipsoid", "FEllPD": "ellipsoid", "FTracklets": "tracklet", "FLineages": "lineage"}
GRAPH_PROBLEM = {"(FGraph FNonUnique)": "nonunique", "(FGraph FMissingNodes)": "missing-nodes", "(FGraph FSelfEdge)": "self",
                 "(FGraph FRepeated)": "repeated"}


def fault_of(ex):
    if isinstance(ex, KeyError):
        return "FKey"
    if isinstance(ex, IndexError):
        return "FIndex"
    if isinstance(ex, ValueError):
        text = " ".join(str(a) for a in ex.args)
        for pat, f in FAULTS:
            if pat in text:
                return f
    return "FUnknown"


def run_impl(c):
    from geff.validate import graph as G
    from geff.validate.data import ValidationConfig, validate_data

    k = c["kind"]
    try:
        if k == "unique":
            ok, bad = G.validate_unique_node_ids(np.array(c["ids"], dtype=c["dt"]))
            return ["ok", bool(ok), [int(x) for x in np.asarray(bad).tolist()]]
        edges = np.array(c["edges"], dtype=c["dt"]).reshape(-1, 2)
        if k == "nodes_for_edges":
            ok, bad = G.validate_nodes_for_edges(np.array(c["ids"], dtype=c["dt"]), edges)
            return ["ok", bool(ok), [[int(a), int(b)] for a, b in np.asarray(bad).tolist()]]
        if k == "self":
            ok, bad = G.validate_no_self_edges(edges)
            return ["ok", bool(ok), [int(x) for x in np.asarray(bad).tolist()]]
        if k == "repeated":
            ok, bad = G.validate_no_repeated_edges(edges)
            return ["ok", bool(ok), [[int(a), int(b)] for a, b in np.asarray(bad).tolist()]]
        if k == "data":
            g, s, e, l, t = c["cfg"]
            cfg = ValidationConfig(graph=g, sphere=s, ellipsoid=e, lineage=l, tracklet=t)
            mem = build_geff(c)
            via, via_fault = via_store5(mem, cfg)
            try:
                validate_data(mem, cfg)
                return ["ok", "", via, "", via_fault]
            except Exception as ex:
                return ["err", exn_name(ex), via, fault_of(ex), via_fault]
    except Exception as ex:
        return ["err", exn_name(ex)]
    raise ValueError(k)


def via_store(mem, cfg):
    """the same validation as users reach it: read_to_memory(store, data_validation=cfg) on the stored graph
    (None when the graph cannot be stored / read structurally: nothing to compare)"""
    from zarr.storage import MemoryStore

    from geff.core_io import read_to_memory, write_arrays

    st = MemoryStore()
    try:
        write_arrays(st, mem["node_ids"], mem["node_props"], mem["edge_ids"], mem["edge_props"], mem["metadata"], structure_validation=False)
        read_to_memory(st)
    except Exception:
        return None
    try:
        read_to_memory(st, data_validation=cfg)
        return "ok"
    except Exception as ex:
        return exn_name(ex)


def via_store5(mem, cfg):
    """via_store with the raise statement that fired: (None, None) | ("ok", "") | (exception class, fault)"""
    from zarr.storage import MemoryStore

    from geff.core_io import read_to_memory, write_arrays

    st = MemoryStore()
    try:
        write_arrays(st, mem["node_ids"], mem["node_props"], mem["edge_ids"], mem["edge_props"], mem["metadata"], structure_validation=False)
        read_to_memory(st)
    except Exception:
        return None, None
    try:
        read_to_memory(st, data_validation=cfg)
        return "ok", ""
    except Exception as ex:
        return exn_name(ex), fault_of(ex)


# ---------------------------------------------------------------- Coq terms
def cedges(es):
    return clist(es, lambda e: f"({cz(e[0])}, {cz(e[1])})")


def cmat(m):
    return clist(m, lambda r: clist(r, cz))


def shapes_oracle_only(c):
    """not representable in the exact-integer model: a NaN radius (accepted by the code: not negative), and exactly singular
    PSD covariance matrices outside the float-exact families (verdict = sign of a rounding error; open finding)"""
    if c["kind"] != "data":
        return False
    if isinstance(c["sphere"], dict) and any(isinstance(v, str) and v == "nan" for v in c["sphere"]["vals"]):
        return True
    e = c["ellipsoid"]
    return isinstance(e, dict) and len(e["shape"]) == 3 and e["shape"][1] == e["shape"][2] and any(ambiguous(M) for M in e["mats"])


def sphere_rows_scaled(s, rows):
    """float radii are multiples of 1/4 (the generator's only fractions): the model gets 4 * radius, -0.0 as 0"""
    if not s.get("float"):
        return rows
    out = [Fraction(radius_value(v)) * RADIUS_SCALE for v in rows]
    assert all(x.denominator == 1 for x in out)
    return [int(x) for x in out]


def coq_case(c, o):
    if shapes_oracle_only(c):
        return None
    k = c["kind"]
    if k == "unique":
        inp = f"IUnique {clist(c['ids'], cz)}"
    elif k == "nodes_for_edges":
        inp = f"INodesForEdges {clist(c['ids'], cz)} {cedges(c['edges'])}"
    elif k == "self":
        inp = f"ISelf {cedges(c['edges'])}"
    elif k == "repeated":
        inp = f"IRepeated {cedges(c['edges'])}"
    else:
        if not old_model_case(c):
            return coq_case5(c, o)       # the whole of validate_data (DataVal.v): every config, every declaration state
        cfg = f"{{| c_graph := {cbool(c['cfg'][0])}; c_sphere := {cbool(c['cfg'][1])}; c_ellipsoid := {cbool(c['cfg'][2])} |}}"
        sph = "None"
        if c["sphere"] is not None:
            s = c["sphere"]
            n = len(c["ids"])
            if len(s["shape"]) == 1:
                rows = s["vals"]
            else:  # 2-D radii: only the rank matters; give the first column
                rows = s["vals"][::2]
            rows = sphere_rows_scaled(s, rows)
            sph = f"(Some ({cnat(len(s['shape']))}, {clist(rows, cz)}, {copt(s['missing'], lambda m: clist(m, cbool))}))"
        ell = "None"
        if c["ellipsoid"] is not None:
            e = c["ellipsoid"]
            sh = e["shape"]
            nd = len(sh)
            r = sh[1] if nd >= 2 else 0
            cc = sh[2] if nd >= 3 else 0
            mats = e["mats"] if nd == 3 else [[] for _ in e["mats"]]
            ell = (f"(Some ({cnat(nd)}, {cnat(r)}, {cnat(cc)}, {clist(mats, cmat)}, "
                   f"{copt(e['missing'], lambda m: clist(m, cbool))}))")
        d = (f"{{| d_directed := {cbool(c['directed'])}; d_ids := {clist(c['ids'], cz)}; d_edges := {cedges(c['edges'])}; "
             f"d_spatial := {cnat(sum(1 for a in c['axes'] if a == 'space'))}; d_sphere := {sph}; d_ellipsoid := {ell} |}}")
        inp = f"IData {cfg} {d}"
        ob = "ORes (Ok tt)" if o[0] == "ok" else f"ORes (Err {o[1]})"
        return f"({inp}, {ob})"
    if o[0] == "err":
        return None
    if k in ("unique", "self"):
        ob = f"OZs {cbool(o[1])} {clist(o[2], cz)}"
    else:
        ob = f"OEs {cbool(o[1])} {cedges(o[2])}"
    return f"({inp}, {ob})"


def old_model_case(c):
    """One in three of the cases that the three-flag model (GraphVal.validate_data, IData) can express -- no lineage / tracklet flag
    with a declared track property, nothing declared-but-absent, masks of the right length -- keeps going to that model, so that it
    stays tied to the code; every other data case goes to the five-flag model (IData5), with the raise statement compared."""
    import json
    import zlib

    if c.get("d5"):
        return False
    if (c["cfg"][3] or c["cfg"][4]) and c["track"] is not None:
        return False
    n = len(c["ids"])
    for k in ("sphere", "ellipsoid"):
        if c[k] == "absent":
            return False
        if c[k] is not None and c[k]["missing"] is not None and len(c[k]["missing"]) != n:
            return False
    return zlib.crc32(json.dumps(c, sort_keys=True, default=str).encode()) % 3 == 0


def cdecl(x, f):
    return "Undeclared" if x is None else "Absent" if x == "absent" else f"(Present {f(x)})"


def csphere(s):
    rows = s["vals"] if len(s["shape"]) == 1 else s["vals"][::2]      # 2-D radii: only the rank matters; give the first column
    rows = sphere_rows_scaled(s, rows)
    return f"({cnat(len(s['shape']))}, {clist(rows, cz)}, {copt(s['missing'], lambda m: clist(m, cbool))})"


def cellipsoid(e):
    sh = e["shape"]
    nd = len(sh)
    r = sh[1] if nd >= 2 else 0
    cc = sh[2] if nd >= 3 else 0
    mats = e["mats"] if nd == 3 else [[] for _ in e["mats"]]
    return f"({cnat(nd)}, {cnat(r)}, {cnat(cc)}, {clist(mats, cmat)}, {copt(e['missing'], lambda m: clist(m, cbool))})"


def ctprop(tp):
    return f"{{| tp_values := {clist(tp['vals'], cz)}; tp_missing := {copt(tp['missing'], lambda m: clist(m, cbool))} |}}"


def coq_case5(c, o):
    g, s, e, l, t = c["cfg"]
    cfg = (f"{{| c5_graph := {cbool(g)}; c5_sphere := {cbool(s)}; c5_ellipsoid := {cbool(e)}; "
           f"c5_lineage := {cbool(l)}; c5_tracklet := {cbool(t)} |}}")
    if c["track"] is None:
        track = "None"
    else:
        track = f"(Some ({cdecl(track_prop(c, 'tracklet'), ctprop)}, {cdecl(track_prop(c, 'lineage'), ctprop)}))"
    d = (f"{{| e_directed := {cbool(c['directed'])}; e_ids := {clist(c['ids'], cz)}; e_edges := {cedges(c['edges'])}; "
         f"e_spatial := {cnat(sum(1 for a in c['axes'] if a == 'space'))}; e_sphere := {cdecl(c['sphere'], csphere)}; "
         f"e_ellipsoid := {cdecl(c['ellipsoid'], cellipsoid)}; e_track := {track} |}}")
    fault = o[3] if len(o) > 3 else "FUnknown"
    ob = "OData5 (Ok tt) None" if o[0] == "ok" else (f"OData5 (Err {o[1]}) None" if fault == "FUnknown" else f"OData5 (Err {o[1]}) (Some {fault})")
    return f"(IData5 {cfg} {d}, {ob})"


# ---------------------------------------------------------------- oracle (from the property text)
def graph_problems(c):
    ids, edges, directed = c["ids"], [tuple(e) for e in c["edges"]], c.get("directed", True)
    idset = set(ids)
    probs = []
    if len(idset) != len(ids):
        probs.append("nonunique")
    if any(a not in idset or b not in idset for a, b in edges):
        probs.append("missing-nodes")
    if any(a == b for a, b in edges):
        probs.append("self")
    keyed = edges if directed else [tuple(sorted(e)) for e in edges]
    if len(set(keyed)) != len(keyed):
        probs.append("repeated")
    return probs


def sphere_valid(s):
    n = s["shape"][0]
    if len(s["shape"]) != 1:
        return False
    miss = s["missing"] or [False] * n
    # "no negative entry": NaN and -0.0 are not negative (radius_value: see the radii block of the generator)
    return all(not (radius_value(v) < 0) for v, m in zip(s["vals"], miss) if not m)


def ellipsoid_valid(e, axes):
    nspace = sum(1 for a in axes if a == "space")
    if nspace == 0:
        return False
    sh = e["shape"]
    if len(sh) != 3 or sh[1] != sh[2] or sh[1] != nspace:
        return False
    return ellipsoid_fault(e, axes) is None


def ellipsoid_fault(e, axes, o=None):
    """None (valid) | "ellipsoid" (some non-missing matrix is asymmetric, has a direction with x^T M x < 0, or is exactly
    singular with a float-exact zero eigenvalue; or the shape is wrong) | "ellipsoid-singular-rounding" (the only
    offenders are exactly singular PSD matrices outside the float-exact families: open finding)"""
    nspace = sum(1 for a in axes if a == "space")
    sh = e["shape"]
    if nspace == 0 or len(sh) != 3 or sh[1] != sh[2] or sh[1] != nspace:
        return "ellipsoid"
    miss = e["missing"] or [False] * sh[0]
    assert len(miss) == sh[0] == len(e["mats"])  # the generator never makes a mask of another length (numpy: IndexError)
    rounding = False
    for M, m in zip(e["mats"], miss):
        if m:
            continue
        if not is_sym(M):
            return "ellipsoid"
        d = definiteness(M)
        if d == "neg" or (d == "singular-psd" and float_exact_singular(M)):
            if o is not None and d == "singular-psd":  # `o` (the observation) only feeds the statistics of the evidence file
                ORACLE_STATS["singular_psd_float_exact_cases"] += 1
            return "ellipsoid"
        if d == "singular-psd":
            rounding = True
    if rounding and o is not None:
        ORACLE_STATS["singular_psd_rounding_cases"] += 1
        ORACLE_STATS["singular_psd_rounding_accepted"] += o[0] == "ok"
    return "ellipsoid-singular-rounding" if rounding else None


def weak_components(nodes, edges):
    """weakly connected components by breadth-first search over an undirected adjacency map (independent of the union-find of
    harness.tracks_gen.components and of networkx)"""
    adj = {x: set() for x in nodes}
    for a, b in edges:
        adj.setdefault(a, set()).add(b)
        adj.setdefault(b, set()).add(a)
    seen, comps = set(), []
    for x in adj:
        if x in seen:
            continue
        comp, todo = {x}, [x]
        while todo:
            y = todo.pop()
            for z in adj[y]:
                if z not in comp:
                    comp.add(z)
                    todo.append(z)
        seen |= comp
        comps.append(frozenset(comp))
    return set(comps)


def track_verdict(c, which):
    """'accept' / 'reject' of the tracklet or lineage annotation, from the documented definitions (docs/tracking.md) on the nodes whose id
    is NOT flagged missing -- a node whose id is missing belongs to no tracklet / lineage but stays in the graph with its edges --
    or 'undefined' where the documents say nothing (declared but not stored, array lengths that do not match, duplicate node ids)."""
    from harness.c13 import is_maximal_unbranched_path, reference_partition

    tp = track_prop(c, which)
    ids, n = c["ids"], len(c["ids"])
    if tp == "absent" or len(tp["vals"]) != n or (tp["missing"] is not None and len(tp["missing"]) != n) or len(set(ids)) != n:
        return "undefined"
    edges = [tuple(x) for x in c["edges"]]
    every = list(dict.fromkeys(list(ids) + [x for ed in edges for x in ed]))     # the graph: listed nodes and every id an edge mentions
    miss = tp["missing"] or [False] * n
    classes = {}
    for x, v, m in zip(ids, tp["vals"], miss):
        if not m:
            classes.setdefault(v, []).append(x)
    if which == "lineage":
        comps = weak_components(every, edges)
        return "accept" if all(frozenset(ns) in comps for ns in classes.values()) else "reject"
    ref = reference_partition(every, edges)
    bad = [tid for tid, ns in classes.items() if frozenset(ns) not in ref]
    bad2 = [tid for tid, ns in classes.items() if not is_maximal_unbranched_path(ns, every, edges)]
    if bad != bad2:
        raise AssertionError(f"harness: the two readings of the documented tracklet definition disagree on {c}: {bad} vs {bad2}")
    return "reject" if bad else "accept"


def data_expectation(c):
    """{validator: 'accept' | 'reject' | 'undefined'} for the validators that are ENABLED and whose property is DECLARED"""
    g, s, e, l, t = c["cfg"]
    n = len(c["ids"])
    exp = {}
    if g:
        exp["graph"] = "reject" if graph_problems(c) else "accept"
    for flag, key, valid in ((s, "sphere", lambda: sphere_valid(c["sphere"])), (e, "ellipsoid", lambda: ellipsoid_valid(c["ellipsoid"], c["axes"]))):
        if flag and c[key] is not None:
            if c[key] == "absent" or (c[key]["missing"] is not None and len(c[key]["missing"]) != n):
                exp[key] = "undefined"
            else:
                exp[key] = "accept" if valid() else "reject"
    if c["track"] is not None:
        for flag, key in ((t, "tracklet"), (l, "lineage")):
            if flag and track_prop(c, key) is not None:
                exp[key] = track_verdict(c, key)
    return exp


def oracle_data(c, o):
    exp = data_expectation(c)
    rejecting = [k for k, v in exp.items() if v == "reject"]
    undefined = [k for k, v in exp.items() if v == "undefined"]
    tags = {"kind": "data", "directed": c["directed"]}
    ell_kind = ellipsoid_fault(c["ellipsoid"], c["axes"], o) if exp.get("ellipsoid") == "reject" else None   # also feeds ORACLE_STATS
    if ell_kind == "ellipsoid-singular-rounding":
        # the property quantifies over covariance stacks CLEARLY inside or clearly outside the symmetric / positive-definite set: an exactly
        # singular PSD matrix whose zero eigenvalue LAPACK returns as +-1e-16 is on the boundary, so no verdict is demanded (the cases are
        # generated and counted in the evidence; the observation is described in DESIGN_NOTES/fx0719-syl.md)
        exp["ellipsoid"] = "undefined"
        rejecting = [k for k, v in exp.items() if v == "reject"]
        undefined = [k for k, v in exp.items() if v == "undefined"]
        ell_kind = None
    if o[0] == "ok" and rejecting:
        first = ell_kind if rejecting[0] == "ellipsoid" and ell_kind else rejecting[0]
        return Failure(c, o, f"validate_data accepts although {rejecting} must reject" + (f" ({graph_problems(c)})" if "graph" in rejecting else ""),
                       dict(tags, why="accepts:" + first))
    if len(o) > 2 and o[2] is not None and (o[2] != ("ok" if o[0] == "ok" else o[1]) or (len(o) > 4 and o[4] != o[3])):
        return Failure(c, o, f"read_to_memory(store, data_validation=cfg) gives {o[2]} {o[4] if len(o) > 4 else ''} but validate_data on the same "
                       f"graph gives {o[0] if o[0] == 'ok' else o[1]} {o[3] if len(o) > 3 else ''}", dict(tags, why="wiring-read"))
    if o[0] == "err":
        fault = o[3] if len(o) > 3 else "FUnknown"
        group = FAULT_GROUP.get(fault)
        if not exp:
            return Failure(c, o, f"no validator is enabled with a declared property, but validate_data raised {o[1]} ({fault})",
                           dict(tags, why="rejects-valid"))
        if group is None and fault == "FUnknown" and o[1] == "ValueError":
            # a ValueError whose message the harness cannot classify (the wording is not part of the property): judged by class --
            # acceptable exactly when some enabled validator with a declared property must reject (or the documents leave it open)
            if rejecting or undefined:
                return None
            return Failure(c, o, "validate_data raised ValueError although every enabled validator must accept", dict(tags, why="rejects-valid"))
        if group is None:
            if not undefined:
                return Failure(c, o, f"validate_data raised {o[1]} ({fault})", dict(tags, why="exception-class"))
            return None
        if o[1] != "ValueError":
            return Failure(c, o, f"validate_data raised {o[1]}", dict(tags, why="exception-class"))
        if group not in exp:
            return Failure(c, o, f"the {group} validator raised although it is not enabled / its property is not declared", dict(tags, why="disabled-raises"))
        if exp[group] == "accept":
            return Failure(c, o, f"the {group} validator rejects valid data ({fault})", dict(tags, why="rejects-valid:" + group))
        if group == "graph" and GRAPH_PROBLEM[fault] not in graph_problems(c):
            return Failure(c, o, f"graph validation reports {fault} but the problems are {graph_problems(c)}", dict(tags, why="wrong-message"))
    return None


def oracle(c, o):
    k = c["kind"]
    if o[0] == "err" and k != "data":
        return Failure(c, o, f"graph validator raised {o[1]}", {"kind": k, "why": "raises"})
    if k == "unique":
        exp = sorted({x for x in c["ids"] if c["ids"].count(x) > 1})
        if o[1] != (not exp) or o[2] != exp:
            return Failure(c, o, f"unique ids: expected ({not exp}, {exp})", {"kind": k, "why": "verdict-or-offenders"})
    elif k == "nodes_for_edges":
        s = set(c["ids"])
        exp = [e for e in c["edges"] if e[0] not in s or e[1] not in s]
        if o[1] != (not exp) or o[2] != exp:
            return Failure(c, o, f"nodes for edges: expected ({not exp}, {exp})", {"kind": k, "why": "verdict-or-offenders"})
    elif k == "self":
        exp = sorted({e[0] for e in c["edges"] if e[0] == e[1]})
        if o[1] != (not exp) or o[2] != exp:
            return Failure(c, o, f"self edges: expected ({not exp}, {exp})", {"kind": k, "why": "verdict-or-offenders"})
    elif k == "repeated":
        es = [tuple(e) for e in c["edges"]]
        exp = sorted({e for e in es if es.count(e) > 1})
        if o[1] != (not exp) or sorted(map(tuple, o[2])) != exp or len(o[2]) != len(exp):
            return Failure(c, o, f"repeated edges: expected ({not exp}, {exp})", {"kind": k, "why": "verdict-or-offenders"})
    elif k == "data":
        return oracle_data(c, o)
    return None


def nontrivial(c, o):
    return bool(c.get("ids") or c.get("edges"))


_STATS: dict = {}


def _count_data(c, o):
    def bump(k):
        _STATS[k] = _STATS.get(k, 0) + 1
    bump("data_cases")
    bump("data_to_five_flag_model" if not old_model_case(c) else "data_to_three_flag_model")
    if c["cfg"][3] or c["cfg"][4]:
        bump("data_with_track_flag")
        if c["track"] is not None and (track_prop(c, "tracklet") is not None or track_prop(c, "lineage") is not None):
            bump("data_with_track_flag_and_declared_track_property")
    for k in ("tracklet", "lineage"):
        tp = track_prop(c, k)
        if isinstance(tp, dict) and tp["missing"] is not None and any(tp["missing"]):
            bump(f"{k}_property_with_real_mask")
    bump("data_outcome_" + (o[3] if o[0] == "err" and len(o) > 3 else o[0]))
    if len(o) > 2 and o[2] is not None:
        bump("data_also_through_read_to_memory")


def extra_coverage():
    return {"dispatch_block": dict(sorted(_STATS.items()))}


def describe(c, o):
    k = c["kind"]
    if k == "data":
        _count_data(c, o)
        return (f"data:cfg={''.join('1' if b else '0' for b in c['cfg'])}:sph={'y' if c['sphere'] else 'n'}:"
                f"ell={'y' if c['ellipsoid'] else 'n'}:trk={'n' if c['track'] is None else 'y'}:{o[0]}")
    return f"{k}:{c['dt']}:n={len(c.get('edges', c.get('ids', [])))}"


def search(rng, budget):
    yield from generate(rng, "thorough")


def extra_coverage():
    """ellipsoid oracle: how many distinct matrices were classified (characteristic polynomial), how often the grid search
    found an explicit x with x^T M x <= 0 for a rejected one, and what the implementation did on the exactly singular ones"""
    return {"ellipsoid_oracle": dict(ORACLE_STATS)}
