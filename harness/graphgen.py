"""Generators of in-memory graphs / caller metadata for the store-cluster checks, their numpy
materialisation, and the Coq printers of the writer's input (wgraph) and the reader's output (mgraph).

A case is plain JSON: arrays are {'dtype', 'shape', 'data' (flat list)}; special floats are the strings
'nan' 'inf' '-inf' '-0.0'; var-length values are {'vlen': [array, ...]}."""
from __future__ import annotations

import itertools
import math
import random

import numpy as np

from harness.common import DTYPE_COQ, LAYOUTS, HarnessError, big_endian, cbool, clist, cnat, copt, cstr, cz, dtype_name, relayout
from harness.storelib import Interner, abstract_meta_obj, c_arr, c_meta, enc_arr, enc_value

INT_DTYPES = ["int8", "int16", "int32", "int64", "uint8", "uint16", "uint32", "uint64"]
PROP_DTYPES = ["bool", *INT_DTYPES, "float16", "float32", "float64", "str"]
SPECIAL = {"nan": math.nan, "inf": math.inf, "-inf": -math.inf, "-0.0": -0.0}
ADV_NAMES = ["values", "props", "missing", "data", "ids", " ", "a.b", "名前", "x" * 60, "geff", "nodes", "A-1", "q?", "tab_le"]


def dec_scalar(v):
    return SPECIAL[v] if isinstance(v, str) and v in SPECIAL else v


def to_np(a: dict) -> np.ndarray:
    dt = a["dtype"]
    data = [dec_scalar(v) for v in a["data"]]
    if dt == "str":
        arr = np.array(data, dtype=str) if data else np.empty(0, dtype="<U1")
    else:
        arr = np.array(data, dtype=dt)
    arr = relayout(arr.reshape(a["shape"]), a.get("layout"))
    return big_endian(arr) if a.get("be") else arr


def prop_to_np(p: dict) -> dict:
    if "vlen" in p["values"]:
        els = p["values"]["vlen"]
        o = np.empty(len(els), dtype=object)
        for i, e in enumerate(els):
            o[i] = to_np(e)
        vals = o
    else:
        vals = to_np(p["values"])
    miss = None if p["missing"] is None else to_np(p["missing"])
    return {"values": vals, "missing": miss}


def props_to_np(ps):
    return None if ps is None else {k: prop_to_np(v) for k, v in ps.items()}


def make_metadata(md: dict):
    from geff_spec import Axis, GeffMetadata, PropMetadata

    axes = None
    if md.get("axes") is not None:
        axes = [Axis(**ax) for ax in md["axes"]]
    kw = {}
    for k in ("sphere", "ellipsoid", "track_node_props", "related_objects", "display_hints", "extra"):
        if md.get(k) is not None:
            kw[k] = md[k]
    return GeffMetadata(directed=md["directed"], axes=axes,
                        node_props_metadata={k: PropMetadata(**v) for k, v in (md.get("nprops_md") or {}).items()},
                        edge_props_metadata={k: PropMetadata(**v) for k, v in (md.get("eprops_md") or {}).items()}, **kw)


# --------------------------------------------------------------------------
# random material
# --------------------------------------------------------------------------
def boundary_ints(dt: str) -> list[int]:
    info = np.iinfo(dt)
    c = {info.min, info.min + 1, info.max, info.max - 1, 0, 1, 2, 5, 100}
    for p in (7, 8, 15, 16, 31, 32, 53, 63):
        for d in (-1, 0, 1):
            v = 2 ** p + d
            if info.min <= v <= info.max:
                c.add(v)
            if info.min <= -v <= info.max:
                c.add(-v)
    return sorted(c)


def rand_scalar(rng: random.Random, dt: str, exact: bool = False):
    if dt == "bool":
        return rng.random() < 0.5
    if dt in INT_DTYPES:
        if rng.random() < 0.5:
            return rng.choice(boundary_ints(dt))
        info = np.iinfo(dt)
        return rng.randint(max(info.min, -50), min(info.max, 50))
    if dt.startswith("float"):
        r = rng.random()
        if not exact and r < 0.12:
            return rng.choice(["nan", "inf", "-inf", "-0.0"])
        if not exact and r < 0.2 and dt != "float16":
            return float(np.array(rng.uniform(-1e6, 1e6), dtype=dt))  # not dyadic: opaque token in the model
        return rng.randint(-4096, 4096) / rng.choice([1, 2, 4, 8, 16])
    if dt == "str":
        return rng.choice(["", "a", "bcd", "ünï", "日本", "a b", "x" * 17, "'q'", "0", "nan"])
    raise HarnessError(dt)


def rand_array(rng, dt, shape, exact=False) -> dict:
    n = int(np.prod(shape)) if shape else 1
    a = {"dtype": dt, "shape": list(shape), "data": [rand_scalar(rng, dt, exact) for _ in range(n)]}
    lay = rng.choice(LAYOUTS)
    if lay != "C" and len(shape) >= 1:
        a["layout"] = lay  # memory layout only; the logical contents are 'data' in C order
    return a


def rand_mask(rng, n, pattern=None):
    pattern = pattern or rng.choice(["none", "none", "false", "true", "alt", "rand"])
    if pattern == "none":
        return None
    if pattern == "false":
        d = [False] * n
    elif pattern == "true":
        d = [True] * n
    elif pattern == "alt":
        d = [i % 2 == 0 for i in range(n)]
    else:
        d = [rng.random() < 0.4 for _ in range(n)]
    return {"dtype": "bool", "shape": [n], "data": d}


def rand_vlen(rng, n, dt=None, rank=None) -> dict:
    dt = dt or rng.choice([d for d in PROP_DTYPES if d != "str"])  # float16 elements are upcast to float32 like fixed arrays
    rank = rng.choice([0, 1, 1, 2, 2, 3]) if rank is None else rank
    els = []
    for _ in range(n):
        shape = [rng.choice([0, 1, 2, 3]) for _ in range(rank)]
        els.append(rand_array(rng, dt, shape))
    return {"vlen": els}


def rand_prop(rng, n, allow_vlen=True) -> dict:
    """one property; with probability 1/8 all its value arrays are in non-native byte order (one byte order per property)"""
    be = rng.random() < 0.125
    if allow_vlen and n > 0 and rng.random() < 0.25:
        v = rand_vlen(rng, n)
        if be:
            for e in v["vlen"]:
                e["be"] = True
        return {"values": v, "missing": rand_mask(rng, n)}
    dt = rng.choice(PROP_DTYPES)
    rank = rng.choice([1, 1, 2, 3])
    shape = [n] + [rng.choice([0, 1, 2, 3]) for _ in range(rank - 1)]
    a = rand_array(rng, dt, shape)
    if be:
        a["be"] = True
    return {"values": a, "missing": rand_mask(rng, n)}


def rand_name(rng, used) -> str:
    for _ in range(50):
        nm = rng.choice(ADV_NAMES) if rng.random() < 0.3 else "p" + str(rng.randrange(100))
        if nm not in used:
            return nm
    return "p_" + str(len(used))


def rand_ids(rng, n, dt) -> list[int]:
    ids: list[int] = []
    pool = boundary_ints(dt)
    info = np.iinfo(dt)
    while len(ids) < n:
        v = rng.choice(pool) if rng.random() < 0.5 else rng.randint(max(info.min, 0), min(info.max, 120))
        if v not in ids:
            ids.append(v)
    return ids


def rand_graph(rng: random.Random, max_n=6, max_e=6, max_props=4, axes=True) -> dict:
    dt = rng.choice(INT_DTYPES)
    n = rng.choice([0, 1, 2, 3, rng.randint(0, max_n)])
    ids = rand_ids(rng, n, dt)
    e = 0 if n == 0 else rng.choice([0, 1, 2, rng.randint(0, max_e)])
    edges = [[rng.choice(ids), rng.choice(ids)] for _ in range(e)]
    if edges and rng.random() < 0.12:
        # an endpoint that is not a node: structurally valid (graph validation is optional), so it must be stored and read back as it is
        info = np.iinfo(dt)
        absent = [v for v in (info.max - 2, 77, 3, info.min + 2) if info.min <= v <= info.max and v not in ids]
        if absent:
            edges[rng.randrange(len(edges))][rng.randrange(2)] = absent[0]
    nprops, eprops = {}, {}
    for _ in range(rng.randint(0, max_props)):
        nprops[rand_name(rng, nprops)] = rand_prop(rng, n)
    for _ in range(rng.randint(0, max_props - 1)):
        eprops[rand_name(rng, eprops)] = rand_prop(rng, e)
    # the same property name on nodes and on edges (identifiers are unique per group only), often of the same kind
    if nprops and rng.random() < 0.35:
        nm = rng.choice(list(nprops))
        if rng.random() < 0.6 and "vlen" in nprops[nm]["values"] and e > 0:
            eprops[nm] = {"values": rand_vlen(rng, e), "missing": rand_mask(rng, e)}
        else:
            eprops[nm] = rand_prop(rng, e)
    md = {"directed": rng.random() < 0.5}
    if axes and rng.random() < 0.5:
        axn = []
        for _ in range(rng.randint(1, 3)):
            nm = rng.choice(["t", "z", "y", "x"])
            if nm in [a["name"] for a in axn]:
                continue
            adt = rng.choice(["float64", "float32", "int32", "uint8", "int64"])
            nprops[nm] = {"values": rand_array(rng, adt, [n], exact=True), "missing": None}
            if adt in INT_DTYPES:  # keep axis coordinates small: min/max pass through Python float
                nprops[nm]["values"]["data"] = [rng.randint(0, 100) for _ in range(n)]
            ax = {"name": nm}
            if rng.random() < 0.5:
                ax["type"] = "time" if nm == "t" else "space"
            if rng.random() < 0.3:
                ax["min"], ax["max"] = 0.0, 999.0  # stale range supplied by the caller
            axn.append(ax)
        md["axes"] = axn
    if rng.random() < 0.3:
        md["extra"] = {"k": rng.randint(0, 9), "nested": {"a": [1, 2, "ü"]}}
    if rng.random() < 0.15:
        md["related_objects"] = [{"type": "labels", "path": "../seg", "label_prop": "seg_id"}]
    np_opt = nprops if (nprops or rng.random() < 0.8) else None
    ep_opt = eprops if (eprops or rng.random() < 0.8) else None
    if np_opt is None and md.get("axes"):
        md.pop("axes")
    g = {"nids": {"dtype": dt, "shape": [n], "data": ids}, "eids": {"dtype": dt, "shape": [e, 2], "data": [x for r in edges for x in r]},
         "nprops": np_opt, "eprops": ep_opt, "md": md}
    for k in ("nids", "eids"):
        lay = rng.choice(LAYOUTS)
        if lay != "C":
            g[k]["layout"] = lay
    if rng.random() < 0.1:  # ids and edge ids in the same non-native byte order
        g["nids"]["be"] = g["eids"]["be"] = True
    return g


# --------------------------------------------------------------------------
# Coq printers
# --------------------------------------------------------------------------
def c_np_arr(a: np.ndarray, it: Interner) -> str:
    return c_arr(enc_arr(a, it))


def c_varr(a: np.ndarray, it: Interner) -> str:
    e = enc_arr(a, it)
    return f"(Build_varr {DTYPE_COQ[e['dt']]} {clist(e['shape'], cnat)} {clist(e['flat'], cz)})"


def c_prop_np(p: dict, it: Interner) -> str:
    v = p["values"]
    if v.dtype == object:
        for x in v:
            if not isinstance(x, np.ndarray):
                raise HarnessError("object array with a non-ndarray element is outside the model")
        vals = f"(PVlen {clist(list(v), lambda x: c_varr(x, it))})"
    else:
        vals = f"(PFixed {c_np_arr(v, it)})"
    miss = "None" if p["missing"] is None else f"(Some {c_np_arr(p['missing'], it)})"
    return f"(mkprop {vals} {miss})"


def c_props_np(ps: dict, it: Interner) -> str:
    return clist(list(ps.items()), lambda kv: f"({cstr(kv[0])}, {c_prop_np(kv[1], it)})")


def c_wgraph(nids, eids, nprops, eprops, it: Interner) -> str:
    np_ = "None" if nprops is None else f"(Some {c_props_np(nprops, it)})"
    ep_ = "None" if eprops is None else f"(Some {c_props_np(eprops, it)})"
    return f"(mkwg {c_np_arr(nids, it)} {c_np_arr(eids, it)} {np_} {ep_})"


def c_mgraph(g: dict, it: Interner) -> str:
    md = abstract_meta_obj(g["metadata"], it)
    return (f"(mkmg {c_meta(md)} {c_np_arr(g['node_ids'], it)} {c_np_arr(g['edge_ids'], it)} "
            f"{c_props_np(g['node_props'], it)} {c_props_np(g['edge_props'], it)})")


def printable_np(a: np.ndarray) -> bool:
    if a.dtype == object:
        return all(isinstance(x, np.ndarray) and x.dtype != object and dtype_name(x.dtype) in DTYPE_COQ for x in a)
    return dtype_name(a.dtype) in DTYPE_COQ or a.dtype.kind == "T"
