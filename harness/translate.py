"""Translator: regenerates the constant part of the Coq model from /repo's
current source on every run (fail-closed: anything unrecognised raises, which
breaks the proof obligations that depend on Gen/*.v).

Gen/Consts.v : path constants (_path.py), VALID_DTYPES / VALID_AXIS_TYPES /
               unit tuples (_valid_values.py), VERSION_PATTERN (_schema.py),
               the callee order of write_arrays / delete_geff bodies.
Gen/Schema.v : geff-schema.json and GeffSchema's exported schema as `json` terms
               (written by translate_schema, used by C08).
Files are rewritten only when their content changes (mtime-stable).
"""
from __future__ import annotations

import ast
import json
import typing
from pathlib import Path

import os

REPO = Path(os.environ.get("VERIF_REPO", "/repo"))
def _coq_root() -> Path:
    """the Coq tree this run builds in: /verif/coq for /repo itself; a PRIVATE copy under .work for a scratch worktree (VERIF_REPO), so that
    checks of different source trees running at the same time never share Gen/*.v and compiled files (harness/common.py, same rule)"""
    import hashlib

    verif = Path(__file__).resolve().parent.parent
    if str(REPO) == "/repo":
        return verif / "coq"
    return verif / ".work" / ("coq-" + hashlib.sha1(str(REPO).encode()).hexdigest()[:10])


GEN = _coq_root() / "theories" / "Gen"
SRC = REPO / "packages/geff/src/geff"
SPEC = REPO / "packages/geff-spec/src/geff_spec"


def cstr(s: str) -> str:
    if any(ord(ch) < 32 and ch not in "\n\t" for ch in s):
        raise ValueError("control character in constant")
    return '"' + s.replace('"', '""') + '"%string'


def write_if_changed(path: Path, text: str) -> None:
    path.parent.mkdir(parents=True, exist_ok=True)
    if path.exists() and path.read_text() == text:
        return
    path.write_text(text)


def module_constants(path: Path) -> dict[str, ast.expr]:
    tree = ast.parse(path.read_text())
    out = {}
    for node in tree.body:
        if isinstance(node, ast.AnnAssign) and isinstance(node.target, ast.Name) and node.value is not None:
            out[node.target.id] = node.value
        elif isinstance(node, ast.Assign) and len(node.targets) == 1 and isinstance(node.targets[0], ast.Name):
            out[node.targets[0].id] = node.value
    return out


def eval_path_const(expr: ast.expr, env: dict[str, str]) -> str:
    if isinstance(expr, ast.Constant) and isinstance(expr.value, str):
        return expr.value
    if isinstance(expr, ast.JoinedStr):
        s = ""
        for part in expr.values:
            if isinstance(part, ast.Constant):
                s += part.value
            elif isinstance(part, ast.FormattedValue) and isinstance(part.value, ast.Name):
                s += env[part.value.id]
            else:
                raise ValueError(f"unrecognised f-string part in _path.py: {ast.dump(part)}")
        return s
    raise ValueError(f"unrecognised constant in _path.py: {ast.dump(expr)}")


def literal_tuple(expr: ast.expr, what: str) -> list[str]:
    # Literal["a", "b", ...]
    if isinstance(expr, ast.Subscript) and isinstance(expr.value, ast.Name) and expr.value.id == "Literal":
        sl = expr.slice
        elts = sl.elts if isinstance(sl, ast.Tuple) else [sl]
        vals = []
        for e in elts:
            if not (isinstance(e, ast.Constant) and isinstance(e.value, str)):
                raise ValueError(f"{what}: non-string literal")
            vals.append(e.value)
        return vals
    raise ValueError(f"{what}: expected Literal[...]")


def callee_order(path: Path, func: str) -> list[str]:
    """Names of the functions called in the body of `func`, in source order (statement order, depth first)."""
    tree = ast.parse(path.read_text())
    for node in ast.walk(tree):
        if isinstance(node, ast.FunctionDef) and node.name == func:
            calls = []

            class V(ast.NodeVisitor):
                def visit_Call(self, c):
                    self.generic_visit(c)
                    f = c.func
                    if isinstance(f, ast.Name):
                        calls.append(f.id)
                    elif isinstance(f, ast.Attribute):
                        calls.append(f.attr)

                def visit_Delete(self, d):
                    for t in d.targets:
                        calls.append("del:" + ast.unparse(t))

            for stmt in node.body:
                V().visit(stmt)
            return calls
    raise ValueError(f"function {func} not found in {path}")


def open_modes(path: Path) -> list[tuple[str, str, str]]:
    """(enclosing function, callee, mode) for every zarr.open_group / zarr.open_array / zarr.open call in a source file.
    mode is the literal `mode=` keyword, "default" when absent; anything else is refused (fail-closed)."""
    tree = ast.parse(path.read_text())
    out: list[tuple[str, str, str]] = []

    def visit(node, fn):
        for child in ast.iter_child_nodes(node):
            name = fn
            if isinstance(child, (ast.FunctionDef, ast.AsyncFunctionDef)):
                name = child.name if fn == "" else f"{fn}.{child.name}"
            elif isinstance(child, ast.ClassDef):
                name = child.name if fn == "" else f"{fn}.{child.name}"
            if isinstance(child, ast.Call) and isinstance(child.func, ast.Attribute) and child.func.attr in ("open_group", "open_array", "open") \
                    and isinstance(child.func.value, ast.Name) and child.func.value.id == "zarr":
                mode = "default"
                for kw in child.keywords:
                    if kw.arg == "mode":
                        if isinstance(kw.value, ast.Constant) and isinstance(kw.value.value, str):
                            mode = kw.value.value
                        else:
                            mode = "expr:" + ast.unparse(kw.value)  # never equal to "r": such a call must be on the allow-list
                out.append((fn, child.func.attr, mode))
            visit(child, name)

    visit(tree, "")
    return out


def param_defaults(names: set[str]) -> list[tuple[str, str, str]]:
    """(file:function, parameter, default) for every function of the two packages that has a parameter called one of `names`.
    default is "True" / "False" for a literal, "required" when the parameter has no default, "..." for an overload stub;
    anything else is refused (fail-closed)."""
    out = []
    for base in (SRC, SPEC):
        for path in sorted(base.rglob("*.py")):
            rel = str(path.relative_to(base.parent))
            tree = ast.parse(path.read_text())

            def visit(node, prefix):
                for child in ast.iter_child_nodes(node):
                    if isinstance(child, (ast.FunctionDef, ast.AsyncFunctionDef)):
                        if any((isinstance(d, ast.Name) and d.id == "overload") or (isinstance(d, ast.Attribute) and d.attr == "overload")
                               for d in child.decorator_list):
                            continue  # typing stubs: their defaults are not behaviour
                        a = child.args
                        pos = a.posonlyargs + a.args
                        defaults = [None] * (len(pos) - len(a.defaults)) + list(a.defaults)
                        for arg, d in list(zip(pos, defaults)) + list(zip(a.kwonlyargs, a.kw_defaults)):
                            if arg.arg in names:
                                if d is None:
                                    val = "required"
                                elif isinstance(d, ast.Constant) and isinstance(d.value, bool):
                                    val = str(d.value)
                                elif isinstance(d, ast.Constant) and d.value is Ellipsis:
                                    val = "..."
                                else:
                                    raise ValueError(f"{rel}:{child.lineno}: default of {arg.arg} is not a boolean literal")
                                out.append((f"{rel}:{prefix}{child.name}", arg.arg, val))
                        visit(child, prefix + child.name + ".")
                    elif isinstance(child, ast.ClassDef):
                        visit(child, prefix + child.name + ".")
                    else:
                        visit(child, prefix)

            visit(tree, "")
    return out


# callees through which the library changes a geff target (or another output): every call of one of them, anywhere in the two
# packages, is listed with its caller and with what it passes for `overwrite` / `mode` (C06: the entry-point table of Entry.v must
# cover exactly this list)
WRITE_CALLEES = {"write_arrays", "write_dicts", "from_ctc_to_geff", "from_trackmate_xml_to_geff", "geff_to_csv", "ctc_tiffs_to_zarr",
                 "delete_geff", "check_for_geff", "_preliminary_checks", "write", "to_csv", "to_zarr", "open_array", "rmtree"}


def write_calls() -> list[tuple[str, str, str]]:
    """(file:function, callee as written, guard argument) for every call of a WRITE_CALLEES name in the two packages.
    guard argument = the source text of the `overwrite=` keyword, else of the `mode=` keyword, else "**" when the call spreads a
    dict, else "-"."""
    out = []
    for base in (SRC, SPEC):
        for path in sorted(base.rglob("*.py")):
            rel = str(path.relative_to(base.parent))
            tree = ast.parse(path.read_text())

            def visit(node, fn):
                for child in ast.iter_child_nodes(node):
                    name = fn
                    if isinstance(child, (ast.FunctionDef, ast.AsyncFunctionDef, ast.ClassDef)):
                        name = child.name if fn == "" else f"{fn}.{child.name}"
                    if isinstance(child, ast.Call):
                        f = child.func
                        callee = f.id if isinstance(f, ast.Name) else (f.attr if isinstance(f, ast.Attribute) else None)
                        if callee in WRITE_CALLEES:
                            kws = {kw.arg: kw.value for kw in child.keywords}
                            if "overwrite" in kws:
                                arg = "overwrite=" + ast.unparse(kws["overwrite"])
                            elif "mode" in kws:
                                arg = "mode=" + ast.unparse(kws["mode"])
                            elif None in kws:
                                arg = "**"
                            else:
                                arg = "-"
                            out.append((f"{rel}:{fn if fn else '<module>'}", ast.unparse(f), arg))
                    visit(child, name)

            visit(tree, "")
    return out


# functions on the read side (C18): every zarr open in them must be read-only
READ_SIDE = {
    "core_io/_utils.py": ["open_storelike", "_detect_zarr_spec_version", "check_for_geff"],
    "core_io/_base_read.py": ["GeffReader.__init__", "GeffReader._read_prop", "GeffReader.read_node_props", "GeffReader.read_edge_props",
                              "GeffReader.build", "GeffReader._load_prop_to_memory", "read_to_memory"],
    "validate/structure.py": ["validate_structure", "_validate_axes_structure", "_validate_props_group", "_validate_nodes_group",
                              "_validate_edges_group"],
    "convert/_dataframe.py": ["geff_to_dataframes"],
}


def gen_consts() -> str:
    lines = ["(* GENERATED by harness/translate.py from /repo -- do not edit *)",
             "From Coq Require Import String List.", "Import ListNotations.", ""]
    # _path.py
    consts = module_constants(SRC / "_path.py")
    env: dict[str, str] = {}
    wanted = ["NODES", "EDGES", "IDS", "PROPS", "VALUES", "MISSING", "DATA", "NODE_IDS", "EDGE_IDS", "NODE_PROPS", "EDGE_PROPS"]
    for name in wanted:
        if name not in consts:
            raise ValueError(f"_path.py: constant {name} missing")
        env[name] = eval_path_const(consts[name], env)
        lines.append(f"Definition path_{name} : string := {cstr(env[name])}.")
    extra = set(consts) - set(wanted)
    if extra:
        raise ValueError(f"_path.py: unknown constants {sorted(extra)}")
    lines.append("")
    # _valid_values.py
    vv = module_constants(SPEC / "_valid_values.py")
    for pyname, coqname in (("DTypes", "valid_dtypes"), ("AxisType", "valid_axis_types"),
                            ("SpaceUnits", "valid_space_units"), ("TimeUnits", "valid_time_units")):
        vals = literal_tuple(vv[pyname], pyname)
        lines.append(f"Definition {coqname} : list string := [" + "; ".join(cstr(v) for v in vals) + "].")
    for pyname, src in (("VALID_DTYPES", "DTypes"), ("VALID_AXIS_TYPES", "AxisType"),
                        ("VALID_SPACE_UNITS", "SpaceUnits"), ("VALID_TIME_UNITS", "TimeUnits")):
        e = vv[pyname]
        if not (isinstance(e, ast.Call) and isinstance(e.func, ast.Name) and e.func.id == "get_args"
                and isinstance(e.args[0], ast.Name) and e.args[0].id == src):
            raise ValueError(f"{pyname} is no longer get_args({src})")
    lines.append("")
    # VERSION_PATTERN
    sc = module_constants(SPEC / "_schema.py")
    vp = sc["VERSION_PATTERN"]
    if not (isinstance(vp, ast.Constant) and isinstance(vp.value, str)):
        raise ValueError("VERSION_PATTERN is not a string literal")
    lines.append(f"Definition version_pattern : string := {cstr(vp.value)}.")
    lines.append("")
    # call order of the write path (commit point comes last) and of delete_geff
    wa = callee_order(SRC / "core_io/_base_write.py", "write_arrays")
    dg = callee_order(SRC / "core_io/_utils.py", "delete_geff")
    # zarr open modes of the read side (C18)
    rs = []
    for rel, fns in READ_SIDE.items():
        for fn, callee, mode in open_modes(SRC / rel):
            if fn in fns:
                rs.append((f"{rel}:{fn}", callee, mode))
    for fn, callee, mode in open_modes(SPEC / "_schema.py"):
        if fn == "GeffMetadata.read":
            rs.append((f"_schema.py:{fn}", callee, mode))
    if not any(f.endswith("GeffMetadata.read") for f, _, _ in rs) or not any("open_storelike" in f for f, _, _ in rs):
        raise ValueError("read-side open calls not found where expected")
    # EVERY zarr open of the two packages (fail-closed: a new helper that opens a store shows up here)
    allo = []
    for base in (SRC, SPEC):
        for path in sorted(base.rglob("*.py")):
            rel = str(path.relative_to(base.parent))
            for fn, callee, mode in open_modes(path):
                allo.append((f"{rel}:{fn}", callee, mode))
    lines.append("Definition all_opens : list (string * string * string) := [" +
                 "; ".join(f"({cstr(f)}, {cstr(c)}, {cstr(m)})" for f, c, m in allo) + "].")
    lines.append("Definition read_side_opens : list (string * string * string) := [" +
                 "; ".join(f"({cstr(f)}, {cstr(c)}, {cstr(m)})" for f, c, m in rs) + "].")
    lines.append("")
    # defaults of the parameters that guard against clobbering / skipping validation, in every function that has them
    pd = param_defaults({"overwrite", "structure_validation", "validate"})
    for must in ("geff/core_io/_base_write.py:write_arrays", "geff/_graph_libs/_api_wrapper.py:write", "geff/convert/_ctc.py:from_ctc_to_geff",
                 "geff/convert/_trackmate_xml.py:from_trackmate_xml_to_geff", "geff/convert/_dataframe.py:geff_to_csv", "geff/_cli.py:convert_ctc"):
        if not any(f == must and prm == "overwrite" for f, prm, _ in pd):
            raise ValueError(f"{must} no longer has an `overwrite` parameter")
    for must, prm in (("geff/core_io/_base_write.py:write_arrays", "structure_validation"), ("geff/core_io/_base_read.py:read_to_memory", "structure_validation"),
                      ("geff/core_io/_base_read.py:GeffReader.__init__", "validate")):
        if not any(f == must and q == prm for f, q, _ in pd):
            raise ValueError(f"{must} no longer has a `{prm}` parameter")
    lines.append("Definition param_defaults : list (string * string * string) := [" +
                 "; ".join(f"({cstr(f)}, {cstr(q)}, {cstr(v)})" for f, q, v in pd) + "].")
    lines.append("")
    wc = write_calls()
    if not any(c == "write_arrays" for _, c, _ in wc):
        raise ValueError("no call of write_arrays found in the packages")
    lines.append("Definition write_calls : list (string * string * string) := [" +
                 "; ".join(f"({cstr(f)}, {cstr(c)}, {cstr(a)})" for f, c, a in wc) + "].")
    lines.append("")
    lines.append("Definition write_arrays_calls : list string := [" + "; ".join(cstr(c) for c in wa) + "].")
    lines.append("Definition delete_geff_calls : list string := [" + "; ".join(cstr(c) for c in dg) + "].")
    lines.append("")
    return "\n".join(lines)


def main() -> None:
    write_if_changed(GEN / "Consts.v", gen_consts())
    try:
        from harness import translate_schema
    except ImportError:
        return
    translate_schema.main()


if __name__ == "__main__":
    main()
    print((GEN / "Consts.v").read_text())
