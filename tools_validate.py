#!/opt/veriftools/pyvenv/bin/python
"""Validate MANIFEST.json and evidence/*.json against the schemas in /root/.vp (python3-vt has jsonschema)."""
import json, sys, glob
import jsonschema
ok = True
def check(path, schema):
    global ok
    try:
        jsonschema.validate(json.load(open(path)), json.load(open(schema)))
        print("ok  ", path)
    except Exception as e:
        ok = False
        print("FAIL", path, str(e)[:300])
check("/verif/MANIFEST.json", "/root/.vp/MANIFEST.schema.json")
for p in sorted(glob.glob("/verif/evidence/*.json")):
    check(p, "/root/.vp/EVIDENCE.schema.json")
sys.exit(0 if ok else 1)
