#!/usr/bin/env python3
"""tools_merge_resolve.py <branch>: resolve the routine conflicts of merging a builder branch: KNOWN_FINDINGS.txt by union, manifest entries
by taking the branch's text/technique and keeping main's appended sentences (harvest note) when the branch lacks them, MANIFEST.json and
evidence/*.json by keeping main's (regenerated afterwards)."""
import json, subprocess, sys, re
from pathlib import Path
br = sys.argv[1]
st = subprocess.check_output(["git", "status", "--short"], text=True).splitlines()
conf = [l[3:] for l in st if l[:2] in ("UU", "AA")]
left = []
for f in conf:
    if f == "KNOWN_FINDINGS.txt":
        out, seen = [], set()
        for l in Path(f).read_text().splitlines():
            if l.startswith(("<<<<<<<", "=======", ">>>>>>>")):
                continue
            if l in seen and l.strip():
                continue
            seen.add(l); out.append(l)
        Path(f).write_text("\n".join(out) + "\n")
        subprocess.run(["git", "add", f])
    elif f.startswith("manifest_entries/"):
        ours = json.loads(subprocess.check_output(["git", "show", f"HEAD:{f}"]))
        theirs = json.loads(subprocess.check_output(["git", "show", f"{br}:{f}"]))
        base = None
        try:
            mb = subprocess.check_output(["git", "merge-base", "HEAD", br], text=True).strip()
            base = json.loads(subprocess.check_output(["git", "show", f"{mb}:{f}"]))
        except Exception:
            pass
        res = dict(theirs)
        for k in ("text", "note"):
            o, t, b = ours.get(k, ""), theirs.get(k, ""), (base or {}).get(k, "")
            if o == b or o == t:
                res[k] = t
            elif t == b:
                res[k] = o
            elif b and o.startswith(b):      # main appended to the base text: carry the appended part over
                res[k] = t.rstrip() + " " + o[len(b):].strip()
            else:
                i = o.find("Harvested corpus")
                res[k] = t.rstrip() + (" " + o[i:] if i >= 0 and "Harvested corpus" not in t else "")
                if i < 0:
                    left.append(f + ":" + k)
        Path(f).write_text(json.dumps(res, indent=1, ensure_ascii=False) + "\n")
        subprocess.run(["git", "add", f])
    elif f == "MANIFEST.json" or f.startswith("evidence/"):
        subprocess.run(["git", "checkout", "--ours", f]); subprocess.run(["git", "add", f])
    else:
        left.append(f)
print("left for manual resolution:", left)
