#!/usr/bin/env python3
"""tools_seed_eval.py <seed name> [<Cxx> ...] [--tier quick]: apply seeded/<name>/patch.diff to /repo, run the checks, undo it,
record the outcome in seeded/<name>/detection.json and regenerate seeded/README.md."""
import json, subprocess, sys, re
from pathlib import Path

V = Path(__file__).resolve().parent


def main():
    args = [a for a in sys.argv[1:] if not a.startswith("--")]
    tier = "thorough" if "--thorough" in sys.argv else "quick"
    name, checks = args[0], args[1:]
    d = V / "seeded" / name
    meta = json.loads((d / "meta.json").read_text())
    if not checks:
        checks = [meta["property"]]
    # the change is applied in a scratch worktree of /repo's HEAD (VERIF_REPO points the check at it), so /repo itself stays clean for
    # checks running concurrently; equivalent to `git -C /repo apply` + `git -C /repo checkout -- .`
    import os, tempfile
    wt = tempfile.mkdtemp(prefix="wt-eval-", dir="/tmp")
    os.rmdir(wt)
    if subprocess.run(["git", "-C", "/repo", "worktree", "add", "-q", "--detach", wt, "HEAD"]).returncode != 0:
        sys.exit("cannot create the scratch worktree")
    if subprocess.run(["git", "-C", wt, "apply", str(d / "patch.diff")]).returncode != 0:
        subprocess.run(["git", "-C", "/repo", "worktree", "remove", "--force", wt])
        sys.exit("patch does not apply to /repo HEAD")
    out = {}
    try:
        for c in checks:
            r = subprocess.run(["./check", c, "--tier", tier], cwd=V, capture_output=True, text=True, timeout=3600,
                               env=dict(os.environ, VERIF_REPO=wt))
            lines = [l for l in r.stdout.splitlines() if l.startswith("VIOLATION") or l.startswith("[")]
            first = None
            m = re.search(r"replay=(\S+)", r.stdout)
            if m and Path(m.group(1)).exists():
                try:
                    first = json.loads(Path(m.group(1)).read_text()).get("what")
                except Exception:
                    pass
            out[c] = {"tier": tier, "exit": r.returncode, "violation_lines": len([l for l in lines if l.startswith("VIOLATION")]),
                      "no_failing_input_only": all("no-failing-input-found" in l for l in lines if l.startswith("VIOLATION")) if any(l.startswith("VIOLATION") for l in lines) else False,
                      "summary": lines[-1] if lines else r.stderr[-300:], "first_violation": first}
            print(c, out[c]["exit"], out[c]["summary"])
    finally:
        subprocess.run(["git", "-C", "/repo", "worktree", "remove", "--force", wt])
        import hashlib, shutil
        _t = V / ".work" / ("coq-" + hashlib.sha1(wt.encode()).hexdigest()[:10])   # the run's private Coq tree
        shutil.rmtree(_t, ignore_errors=True)
        Path(str(_t) + ".synclock").unlink(missing_ok=True)
    p = d / "detection.json"
    old = json.loads(p.read_text()) if p.exists() else {}
    old.update(out)
    p.write_text(json.dumps(old, indent=1))
    readme()


def _load(p):
    """a file another evaluation is rewriting at this moment may be empty for an instant: retry, then give up with {}"""
    import time
    for _ in range(5):
        try:
            return json.loads(p.read_text())
        except Exception:
            time.sleep(0.2)
    return {}


def readme():
    rows = ["# Seeded changes (each verified: demo fails with the change, passes without; never committed to /repo)", "",
            "| seed | property | needs to manifest | checks run -> outcome |", "|---|---|---|---|"]
    for d in sorted((V / "seeded").iterdir()):
        if not (d / "meta.json").exists():
            continue
        m = _load(d / "meta.json")
        det = _load(d / "detection.json") if (d / "detection.json").exists() else {}
        outs = []
        for c, o in det.items():
            if o["exit"] == 1 and not o["no_failing_input_only"]:
                outs.append(f"{c} ({o['tier']}): VIOLATION with failing input")
            elif o["exit"] == 1:
                outs.append(f"{c} ({o['tier']}): VIOLATION no-failing-input-found")
            elif o["exit"] == 0:
                outs.append(f"{c} ({o['tier']}): MISSED")
            else:
                outs.append(f"{c}: harness error")
        needs = (m.get("needs_to_manifest") or "").replace("|", "/").replace("\n", " ")[:260]
        rows.append(f"| {d.name} | {m.get('property')} | {needs} | {'; '.join(outs) or 'not evaluated'} |")
    (V / "seeded" / "README.md").write_text("\n".join(rows) + "\n")


if __name__ == "__main__":
    if len(sys.argv) > 1 and sys.argv[1] == "--readme":
        readme()
    else:
        main()
