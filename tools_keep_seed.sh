#!/bin/bash
# tools_keep_seed.sh <Cxx> <name>: verify /tmp/agent-<Cxx> in /tmp/wt-<Cxx> (demo fails with, passes without), store under seeded/<name>
set -u
C="$1"; N="$2"; WT=/tmp/wt-$C; A=/tmp/agent-$C
export PYTHONPATH=$WT/packages/geff/src:$WT/packages/geff-spec/src PYTHONHASHSEED=0
cd $WT
git checkout -q -- . ; git apply $A/patch.diff || exit 2
/venv/bin/python -W ignore $A/demo.py >/dev/null 2>&1; W=$?
git checkout -q -- .
/venv/bin/python -W ignore $A/demo.py >/dev/null 2>&1; WO=$?
echo "demo with change: exit $W ; without: exit $WO"
if [ $W -ne 0 ] && [ $WO -eq 0 ]; then
  mkdir -p /verif/seeded/$N && cp $A/patch.diff $A/demo.py /verif/seeded/$N/ && cp $A/meta.json /verif/seeded/$N/meta.agent.json && echo kept $N
else echo "NOT kept"; fi
