#!/bin/bash
# tools_keep_seed.sh <tag e.g. C04a> <name>: verify the seeder's delivery in /tmp/agent-<tag> against worktree /tmp/wt-<tag>
# (demo fails with the change, passes without; patch applies to /repo's HEAD), then store it under seeded/<name>/.
set -u
T="$1"; N="$2"; WT=/tmp/wt-$T; A=/tmp/agent-$T
export PYTHONPATH=$WT/packages/geff/src:$WT/packages/geff-spec/src PYTHONHASHSEED=0
cd $WT || exit 2
git diff > /tmp/keep-$T.diff
[ -s $A/patch.diff ] || cp /tmp/keep-$T.diff $A/patch.diff
git checkout -q -- . ; git apply $A/patch.diff || { echo "patch does not apply"; exit 2; }
/venv/bin/python -W ignore $A/demo.py >/dev/null 2>&1; W=$?
git checkout -q -- .
/venv/bin/python -W ignore $A/demo.py >/dev/null 2>&1; WO=$?
echo "demo with change: exit $W ; without: exit $WO"
if [ $W -ne 0 ] && [ $WO -eq 0 ]; then
  mkdir -p /verif/seeded/$N && cp $A/patch.diff $A/demo.py /verif/seeded/$N/ && cp $A/meta.json /verif/seeded/$N/meta.agent.json
  /venv/bin/python - "$N" "$W" "$WO" <<'PY'
import json, sys, os
n, w, wo = sys.argv[1:4]
d = f"/verif/seeded/{n}"
a = json.load(open(f"{d}/meta.agent.json"))
m = {"property": a.get("property"), "breaks": a.get("summary"), "needs_to_manifest": a.get("needs"),
     "what_was_run": {"agent_tests": a.get("tests_run"), "demo_changed_exit_verified": int(w), "demo_unchanged_exit_verified": int(wo),
                      "verified_by": "tools_keep_seed.sh in a scratch worktree of /repo HEAD: demo.py exits non-zero with patch.diff applied and 0 without"}}
json.dump(m, open(f"{d}/meta.json", "w"), indent=1)
PY
  echo kept $N
else echo "NOT kept"; fi
