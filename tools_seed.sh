#!/bin/bash
# tools_seed.sh <seed dir or patch> <Cxx> [tier]: apply a seeded change to /repo, run the check, undo it.
set -u
P="$(realpath "$1")"; [ -d "$P" ] && P="$P/patch.diff"
C="$2"; T="${3:-quick}"
git -C /repo diff --quiet || { echo "/repo is dirty"; exit 2; }
git -C /repo apply "$P" || { echo "patch does not apply"; exit 2; }
cd /verif && ./check "$C" --tier "$T" 2>&1 | tail -6
echo "exit=$?"
git -C /repo checkout -- . 
