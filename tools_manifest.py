#!/usr/bin/env python3
"""Regenerates /verif/MANIFEST.json from manifest_entries/Cxx.json (one file per claimed property:
{text, note, technique, design, [category]}) and manifest_entries/NA.json ({Cxx: reason} for unclaimed ones)."""
import json
from pathlib import Path

HERE = Path(__file__).resolve().parent
ALL = [f"C{i:02d}" for i in range(1, 21)]


def main():
    entries = {p.stem: json.loads(p.read_text()) for p in sorted((HERE / "manifest_entries").glob("C*.json"))}
    na_file = HERE / "manifest_entries" / "NA.json"
    na_reasons = json.loads(na_file.read_text()) if na_file.exists() else {}
    checks = []
    for pid in ALL:
        if pid not in entries:
            continue
        c = entries[pid]
        checks.append({
            "property_id": pid,
            "quick_cmd": f"./check {pid} --tier quick",
            "thorough_cmd": f"./check {pid} --tier thorough",
            "evidence_file": f"/verif/evidence/{pid}.json",
            "replay_cmd_template": f"./check {pid} --replay {{path}}",
            "engine": "coq-model+correspondence",
            "level_claimed": {"category": c.get("category", "proof"), "text": c["text"], "design_ref": f"DESIGN.md section {c['design']}"},
            "level_note": c["note"],
            "technique": c["technique"],
        })
    na = [{"property_id": pid, "reason": na_reasons.get(pid, "check not built yet (work in progress; see DESIGN.md section 10)")}
          for pid in ALL if pid not in entries]
    m = {
        "version": 1,
        "setup_cmd": "./check --setup",
        "hooks": {
            "guard": "GEFF_VERIF",
            "enable": "no source hooks are needed: every entry point takes a caller-supplied store; checks import geff from /repo via PYTHONPATH",
            "baseline_off_cmd": "cd /repo && /venv/bin/python -m pytest -ra -q -p no:cacheprovider --timeout=900 --continue-on-collection-errors",
            "source_commits": [],
            "add_only": True,
        },
        "engines": [{
            "name": "coq-model+correspondence",
            "path": "/verif/coq (models, lemmas, props) + /verif/harness (translator, generators, shard runner, oracles)",
            "serves_properties": [c["property_id"] for c in checks],
            "kind_free_text": "hand-written executable Gallina models with machine-checked theorems (Coq 8.16.1); tie to the code = "
                              "translator-regenerated constants + differential correspondence evaluated with vm_compute",
        }],
        "checks": checks,
        "not_applicable": na,
        "notes": "All checks force PYTHONPATH to /repo's working tree (the venv otherwise imports an installed wheel). "
                 "Exit 0 held / 1 violation / 2 harness error. KNOWN_FINDINGS.txt lists open and fixed findings. "
                 "Where to read: DESIGN.md (approach; section 8 trusted base; section 11 as built), THEOREMS.md (every property theorem with its "
                 "statement, generated), seeded/README.md (seeded changes and which check reports each; seeded/_harmless: refactorings that "
                 "must not alarm), mutation/ (AST mutation sweep), audit/ (independent review of statements vs property texts). "
                 "./check --audit = coqchk -o over the compiled development (Axioms: <none>); ./check --harvest = the repository's own test "
                 "inputs replayed through the models (also part of every thorough check). VERIF_REPO=<worktree> points a check at a scratch "
                 "copy of the source (private Coq tree); registered commands always run against /repo.",
    }
    json.dump(m, open(HERE / "MANIFEST.json", "w"), indent=1)


if __name__ == "__main__":
    main()
