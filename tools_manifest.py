#!/usr/bin/env python3
"""Regenerates /verif/MANIFEST.json from the table below (single source of truth for the interface)."""
import json

CHECKS = {
    "C11": dict(
        text="Coq theorems over Vlen.v for all sequences (no size bound): decode(encode l)=l, offsets contiguous from 0, "
             "every slice in bounds, encoder accepts iff one rank+dtype, normalisation spec (one dtype/rank, Nones flagged, "
             "safe cast + leading-axis padding, size preserved), normalised output always encodable, order-freeness under "
             "Permutation. Tie: model evaluated in Coq (vm_compute) against numpy's can_cast/promote_types/result_type tables "
             "(exhaustive) and geff's serialize/deserialize/construct_var_len_props on generated sequences.",
        note="Trusted: Coq kernel+VM, harness (generators, term printer), np.asarray as abstraction boundary; strings/objects oracle-only; "
             "float payloads restricted to multiples of 2^-10.",
        technique="Coq proof (induction over sequences, Permutation) + vm_compute correspondence",
        design="6/C11"),
    "C12": dict(
        text="Coq theorems over GraphVal.v for all id/edge lists over Z (every integer dtype, full range): the graph part of "
             "validate_data passes iff ids unique, endpoints exist, no self edge, no repeated edge (ordered if directed, unordered "
             "via norm_edge otherwise); offender lists are exactly the offenders (membership iff count>1 / filter spec, NoDup); "
             "sphere iff 1-D and non-negative over non-missing entries; ellipsoid iff (N,d,d) with d=#space axes, symmetric and "
             "Sylvester-positive over non-missing entries; dispatch theorem (raises iff an enabled+declared validator fails). "
             "Tie: validators' verdicts and offender arrays, and validate_data outcomes, compared with the model in Coq.",
        note="Trusted: Coq kernel+VM, harness; np.unique/np.isin modelled by meaning; positive-definite = Sylvester criterion "
             "(equivalence with the quadratic-form definition not re-proved); eigvals/allclose tied only on small integer, "
             "non-singular matrices; lineage/tracklet flags of validate_data are oracle-only here (modelled in C13/C14).",
        technique="Coq proof (iff by induction, NoDup/count lemmas) + vm_compute correspondence",
        design="6/C12"),
    "C13": dict(
        text="Coq theorems over Tracks.v for all edge lists and labellings (no size bound; unique node ids, edges between listed "
             "nodes): validate_tracklets reports no invalid tracklet iff (L) adjacent nodes share an id exactly when their edge is the "
             "only edge leaving its source and the only edge entering its target and (C) every tracklet is weakly connected, i.e. the "
             "classes are the maximal unbranched paths; per-class soundness/completeness; the ids named in the messages are exactly "
             "the invalid tracklets. Weak connectivity via Reach.v (fuelled closure proved sound and complete). Tie: verdict and named "
             "ids of validate_tracklets (and validate_data(tracklet=True)) compared with the model in Coq on all DAGs<=4 nodes x "
             "labellings (exhaustive block) plus random larger DAGs.",
        note="Trusted: Coq kernel+VM, harness; networkx DiGraph/subgraph/degree/is_weakly_connected modelled by meaning; the code's "
             "cycle test is not modelled (property quantifies over acyclic graphs; generators emit DAGs only).",
        technique="Coq proof (iff via local edge condition + reachability soundness/completeness) + vm_compute correspondence",
        design="6/C13"),
    "C14": dict(
        text="Coq theorems over Tracks.v for all digraphs (cycles allowed, edges may mention absent ids) and labellings with unique "
             "node ids: validate_lineages reports no invalid lineage iff nodes share a lineage id exactly when weakly connected and no "
             "listed node is connected to an id outside the node list; per-lineage component test spec; names theorem; reachability "
             "soundness and completeness. Tie: verdict and named ids compared with the model in Coq on all digraphs<=3 nodes "
             "(<=4 in thorough) x labellings, absent-id variants, random 5-7 node graphs.",
        note="Trusted: Coq kernel+VM, harness; networkx weakly_connected_components modelled by undirected reachability.",
        technique="Coq proof (component characterisation by reachability, induction) + vm_compute correspondence",
        design="6/C14"),
}

NOT_YET = {
}

ALL = [f"C{i:02d}" for i in range(1, 21)]


def main():
    checks = []
    for pid in ALL:
        if pid not in CHECKS:
            continue
        c = CHECKS[pid]
        checks.append({
            "property_id": pid,
            "quick_cmd": f"./check {pid} --tier quick",
            "thorough_cmd": f"./check {pid} --tier thorough",
            "evidence_file": f"/verif/evidence/{pid}.json",
            "replay_cmd_template": f"./check {pid} --replay {{path}}",
            "engine": "coq-model+correspondence",
            "level_claimed": {"category": "proof", "text": c["text"], "design_ref": f"DESIGN.md section {c['design']}"},
            "level_note": c["note"],
            "technique": c["technique"],
        })
    na = [{"property_id": pid, "reason": NOT_YET.get(pid, "check not built yet in this round (work in progress; see DESIGN.md section 10)")}
          for pid in ALL if pid not in CHECKS]
    m = {
        "version": 1,
        "setup_cmd": "./check --setup",
        "hooks": {
            "guard": "GEFF_VERIF",
            "enable": "no source hooks are needed: every entry point takes a caller-supplied store; checks import geff from /repo via PYTHONPATH",
            "baseline_off_cmd": "cd /repo && /venv/bin/python -m pytest -ra -q -p no:cacheprovider --timeout=900 --continue-on-collection-errors",
            "source_commits": [],
            "add_only": True,
        },
        "engines": [{
            "name": "coq-model+correspondence",
            "path": "/verif/coq (models, lemmas, props) + /verif/harness (translator, generators, shard runner, oracles)",
            "serves_properties": [c["property_id"] for c in checks],
            "kind_free_text": "hand-written executable Gallina models with machine-checked theorems (Coq 8.16.1); tie to the code = "
                              "translator-regenerated constants + differential correspondence evaluated with vm_compute",
        }],
        "checks": checks,
        "not_applicable": na,
        "notes": "All checks force PYTHONPATH to /repo's working tree (the venv otherwise imports an installed wheel). "
                 "Exit 0 held / 1 violation / 2 harness error. KNOWN_FINDINGS.txt lists open and fixed findings.",
    }
    json.dump(m, open("/verif/MANIFEST.json", "w"), indent=1)


if __name__ == "__main__":
    main()
